package main

// Trusted models of standard-library functions. Every model used on a proof path is
// listed in the evidence file (trusted_base).

import (
	"fmt"
	"regexp"
	"strconv"
	"go/token"
	"go/types"
	"strings"

	"golang.org/x/tools/go/ssa"
)

const nsPerSec = "1000000000"

func (e *Engine) trustedCall(callee *ssa.Function, args []Val, st *State, reach string, pos token.Pos) (Val, bool) {
	full := callee.String()
	pkg := ""
	if callee.Pkg != nil {
		pkg = callee.Pkg.Pkg.Path()
	}
	str := func(i int) string { return termOf(args[i]) }
	if callee.Pkg == nil && originPkgPath(callee) == "slices" && callee.Origin() != nil && callee.Origin().Name() == "Contains" && !e.bv() {
		// slices.Contains(s, v) == exists k :: s[k] == v   (scalar element types)
		if sv, ok := args[0].(SliceV); ok && sv.Arr != nil && len(sv.Arr.Leaves) == 1 && sv.Arr.Leaves[0].key == ".v" {
			m := e.arr(st, sv.Arr)
			e.nfresh++
			k := fmt.Sprintf("kc!%d", e.nfresh)
			return BoolV{"(exists ((" + k + " Int)) (and (<= 0 " + k + ") (< " + k + " " + sv.Len + ") (= (select " + m[".v"] + " " + e.addIdx(sv.Off, k) + ") " + termOf(args[1]) + ")))"}, true
		}
	}
	if pkg == "strings" && callee.Name() == "IndexByte" && !e.bv() {
		if s, ok := args[0].(StrV); ok {
			return IntV{"(str.indexof " + s.T + " (str.from_code " + termOf(args[1]) + ") 0)"}, true
		}
	}
	if pkg == "fmt" && callee.Name() == "Sprintf" && !e.bv() && len(args) == 2 {
		// fmt.Sprintf with a literal format made of plain text and %d / %v / %s verbs over integers and strings:
		// the concatenation of the text pieces and the decimal / verbatim renderings of the arguments
		if t, ok := e.sprintfModel(st, args[0], args[1]); ok {
			return StrV{t}, true
		}
	}
	if pkg == "math" && !e.bv() {
		// float64 is treated as a mathematical real (assumption, listed in the evidence). math.Pow(b, x) is an
		// uninterpreted function of its arguments of which only this is known: for b >= 1 and x >= 0 it is >= 1
		// (or +Inf, which compares greater than every finite value: the same fact); math.IsInf is false on reals.
		switch callee.Name() {
		case "Pow":
			if b, ok := args[0].(RealV); ok {
				if x, ok := args[1].(RealV); ok {
					e.declUF("uf_pow", "(Real Real) Real")
					t := "(uf_pow " + b.T + " " + x.T + ")"
					e.fact(imp(and("(>= "+b.T+" 1.0)", "(>= "+x.T+" 0.0)"), "(>= "+t+" 1.0)"))
					e.trustedUsed["math.Pow(b, x) >= 1 for b >= 1, x >= 0 (float64 as real; overflow to +Inf compares the same way)"] = true
					return RealV{t}, true
				}
			}
		case "IsInf":
			if _, ok := args[0].(RealV); ok {
				e.trustedUsed["math.IsInf is false (float64 as real)"] = true
				return BoolV{"false"}, true
			}
		}
	}
	if pkg == "strconv" && callee.Name() == "Itoa" && !e.bv() && len(args) == 1 {
		// strconv.Itoa(n): the decimal digits of n (SMT-LIB str.from_int is defined for n >= 0; negative: "-" + digits)
		if n, ok := args[0].(IntV); ok {
			return StrV{"(ite (>= " + n.T + " 0) (str.from_int " + n.T + ") (str.++ \"-\" (str.from_int (- " + n.T + "))))"}, true
		}
	}
	if pkg == "bytes" && callee.Name() == "Equal" && !e.bv() && len(args) == 2 {
		if v, ok := e.bytesEqual(st, args[0], args[1]); ok {
			return v, true
		}
	}
	switch pkg {
	case "net":
		if v, ok := e.trustedNet(callee, args, st); ok {
			return v, true
		}
	case "strconv":
		switch callee.Name() {
		case "ParseInt", "Atoi":
			// (i, err): err == nil ==> i within the requested bit size; a negative result needs a leading "-"
			if s, ok := args[0].(StrV); ok && !e.bv() {
				i := e.fresh("parseint", "Int")
				er := e.fresh("parseint_err", "Int")
				e.fact("(>= " + er + " 0)")
				e.fact(intRange(callee.Signature.Results().At(0).Type(), i))
				e.fact(imp(eq(er, "0"), and(imp("(< "+i+" 0)", "(str.prefixof \"-\" "+s.T+")"), "(> (str.len "+s.T+") 0)")))
				e.fact(imp(not(eq(er, "0")), "(>= "+er+" 1000)"))
				return TupleV{IntV{i}, ErrV{er}}, true
			}
		}
	case "strings":
		if e.bv() {
			return nil, false
		}
		if callee.Name() == "SplitN" {
			s, ok0 := args[0].(StrV)
			sep, ok1 := args[1].(StrV)
			n, ok2 := litInt(termOf(args[2]))
			if ok0 && ok1 && ok2 && n == 2 && len(sep.T) > 2 && sep.T[0] == '"' {
				has := "(str.contains " + s.T + " " + sep.T + ")"
				idx := "(str.indexof " + s.T + " " + sep.T + " 0)"
				first := ite(has, "(str.substr "+s.T+" 0 "+idx+")", s.T)
				second := "(str.substr " + s.T + " (+ " + idx + " (str.len " + sep.T + ")) (str.len " + s.T + "))"
				arr := e.newArr(st, types.Typ[types.String], false, "splitn")
				m := st.arrs[arr]
				m[".v"] = "(store (store " + m[".v"] + " 0 " + first + ") 1 " + second + ")"
				return SliceV{Arr: arr, Off: "0", Len: ite(has, "2", "1"), Nil: "false"}, true
			}
			return nil, false
		}
		for _, a := range args {
			if _, ok := a.(StrV); !ok {
				return nil, false
			}
		}
		switch callee.Name() {
		case "HasPrefix":
			return BoolV{"(str.prefixof " + str(1) + " " + str(0) + ")"}, true
		case "HasSuffix":
			return BoolV{"(str.suffixof " + str(1) + " " + str(0) + ")"}, true
		case "Contains":
			return BoolV{"(str.contains " + str(0) + " " + str(1) + ")"}, true
		case "Index":
			return IntV{"(str.indexof " + str(0) + " " + str(1) + " 0)"}, true
		case "TrimSuffix":
			s, suf := str(0), str(1)
			return StrV{ite("(str.suffixof "+suf+" "+s+")", "(str.substr "+s+" 0 (- (str.len "+s+") (str.len "+suf+")))", s)}, true
		case "TrimPrefix":
			s, pre := str(0), str(1)
			return StrV{ite("(str.prefixof "+pre+" "+s+")", "(str.substr "+s+" (str.len "+pre+") (- (str.len "+s+") (str.len "+pre+")))", s)}, true
		case "LastIndex":
			s, sep := str(0), str(1)
			r := e.fresh("lastindex", "Int")
			e.fact("(>= " + r + " (- 1))")
			e.fact("(= (= " + r + " (- 1)) (not (str.contains " + s + " " + sep + ")))")
			e.fact("(=> (>= " + r + " 0) (and (= (str.substr " + s + " " + r + " (str.len " + sep + ")) " + sep + ") (<= (+ " + r + " (str.len " + sep + ")) (str.len " + s + ")) (not (str.contains (str.substr " + s + " (+ " + r + " 1) (str.len " + s + ")) " + sep + "))))")
			return IntV{r}, true
		case "ToLower", "ToUpper", "TrimSpace":
			// uninterpreted, idempotent, length facts
			uf := "uf_strings_" + callee.Name()
			e.declUF(uf, "(String) String")
			r := "(" + uf + " " + str(0) + ")"
			e.fact("(= (" + uf + " " + r + ") " + r + ")")
			if callee.Name() == "TrimSpace" {
				e.fact("(<= (str.len " + r + ") (str.len " + str(0) + "))")
				e.fact("(str.contains " + str(0) + " " + r + ")")
			} else {
				e.fact("(= (str.len " + r + ") (str.len " + str(0) + "))")
			}
			return StrV{r}, true
		case "EqualFold":
			uf := "uf_strings_ToLower"
			e.declUF(uf, "(String) String")
			return BoolV{"(= (" + uf + " " + str(0) + ") (" + uf + " " + str(1) + "))"}, true
		}
	case "errors":
		switch callee.Name() {
		case "New":
			n := e.fresh("err", "Int")
			e.fact("(>= " + n + " 1000)")
			return ErrV{n}, true
		case "Is":
			a, ok1 := args[0].(ErrV)
			b, ok2 := args[1].(ErrV)
			if ok1 && ok2 {
				r := e.fresh("errors_is", "Bool")
				e.fact(imp(eq(a.T, b.T), r))
				e.fact(imp(eq(a.T, "0"), eq(r, eq(b.T, "0"))))
				// errors that do not wrap: sentinel errors only match themselves
				e.fact(imp("(and (> "+a.T+" 0) (< "+a.T+" 1000))", eq(r, eq(a.T, b.T))))
				return BoolV{r}, true
			}
		case "As":
			a, ok1 := args[0].(ErrV)
			if ok1 {
				r := e.fresh("errors_as", "Bool")
				e.fact(imp(eq(a.T, "0"), not(r)))
				e.fact(imp("(and (> "+a.T+" 0) (< "+a.T+" 1000))", not(r))) // sentinels are plain errors.New values
				if len(args) > 1 {
					e.havocPointee(st, args[1], "errors.As")
				}
				return BoolV{r}, true
			}
		}
	case "fmt":
		switch callee.Name() {
		case "Errorf":
			n := e.fresh("err", "Int")
			e.fact("(>= " + n + " 1000)")
			return ErrV{n}, true
		}
	case "time":
		return e.trustedTime(callee, args, st)
	case "sync/atomic":
		switch full {
		case "sync/atomic.AddInt64", "sync/atomic.AddInt32":
			// one atomic step: *addr += delta; returns the new value
			old := e.load(st, args[0], callee.Signature.Params().At(1).Type(), reach, pos)
			if ov, ok := old.(IntV); ok {
				nv := IntV{"(+ " + ov.T + " " + termOf(args[1]) + ")"}
				e.store(st, args[0], nv, reach, pos)
				return nv, true
			}
		case "sync/atomic.CompareAndSwapInt32", "sync/atomic.CompareAndSwapInt64":
			// one atomic step: if *addr == old { *addr = new; return true }; return false
			cur := e.load(st, args[0], callee.Signature.Params().At(1).Type(), reach, pos)
			if cv, ok := cur.(IntV); ok {
				sw := eq(cv.T, termOf(args[1]))
				e.store(st, args[0], IntV{ite(sw, termOf(args[2]), cv.T)}, reach, pos)
				return BoolV{sw}, true
			}
		case "sync/atomic.LoadInt64", "sync/atomic.LoadInt32":
			if v := e.load(st, args[0], callee.Signature.Results().At(0).Type(), reach, pos); v != nil {
				return v, true
			}
		}
	}
	return nil, false
}

func (e *Engine) declUF(name, sig string) {
	if !e.ufs[name] {
		e.ufs[name] = true
		e.decls = append(e.decls, "(declare-fun "+name+" "+sig+")")
	}
}

// time.Time is modelled as unix nanoseconds (Int). Calendar functions are uninterpreted with
// the axioms valid for UTC; every use is recorded as a trusted assumption.
func (e *Engine) trustedTime(callee *ssa.Function, args []Val, st *State) (Val, bool) {
	name := callee.Name()
	recv := ""
	if callee.Signature.Recv() != nil {
		recv = types.TypeString(callee.Signature.Recv().Type(), nil)
	}
	tv := func(i int) (string, bool) {
		if t, ok := args[i].(TimeV); ok {
			return t.T, true
		}
		return "", false
	}
	switch recv {
	case "time.Time":
		t, ok := tv(0)
		if !ok {
			return nil, false
		}
		switch name {
		case "UTC":
			u := "(+ " + t + " 0)" // same instant, UTC location (a distinct term so that the location mark does not leak back)
			if e.utcTimes[t] {
				u = t
			}
			e.markUTC(u)
			return TimeV{u}, true
		case "Local", "In":
			return TimeV{"(- " + t + " 0)"}, true // same instant, unknown location
		case "Year", "Month", "Day":
			e.calendarAxiom()
			return IntV{"(uf_" + strings.ToLower(name) + " " + e.localNanos(t) + ")"}, true
		case "Before":
			if u, ok := tv(1); ok {
				return BoolV{"(< " + t + " " + u + ")"}, true
			}
		case "After":
			if u, ok := tv(1); ok {
				return BoolV{"(> " + t + " " + u + ")"}, true
			}
		case "Equal":
			if u, ok := tv(1); ok {
				return BoolV{eq(t, u)}, true
			}
		case "Compare":
			if u, ok := tv(1); ok {
				return IntV{ite("(< "+t+" "+u+")", "(- 1)", ite("(> "+t+" "+u+")", "1", "0"))}, true
			}
		case "Add":
			return TimeV{e.keepLoc(t, "(+ "+t+" "+termOf(args[1])+")")}, true
		case "Sub":
			if u, ok := tv(1); ok {
				return IntV{"(- " + t + " " + u + ")"}, true
			}
		case "Unix":
			return IntV{"(div " + t + " " + nsPerSec + ")"}, true
		case "UnixNano":
			return IntV{t}, true
		case "UnixMilli":
			return IntV{"(div " + t + " 1000000)"}, true
		case "IsZero":
			return BoolV{eq(t, "zeroTime")}, true
		case "Truncate":
			d := termOf(args[1])
			// valid for durations that divide a day when counted from the unix epoch (seconds, minutes, hours, days):
			// Go truncates relative to the zero time, which is a whole number of days before the epoch.
			return TimeV{e.keepLoc(t, ite("(> "+d+" 0)", "(- "+t+" (mod "+t+" "+d+"))", t))}, true
		case "AddDate":
			y, okY := litInt(termOf(args[1]))
			m, okM := litInt(termOf(args[2]))
			if okY && okM && y == 0 && m == 0 {
				// adding whole days (fixed-offset locations: a day is 24 h)
				return TimeV{e.keepLoc(t, "(+ "+t+" (* "+termOf(args[3])+" 86400000000000))")}, true
			}
		}
	case "time.Duration":
		d := termOf(args[0])
		switch name {
		case "Seconds":
			return RealV{"(/ (to_real " + d + ") " + nsPerSec + ".0)"}, true
		case "Milliseconds":
			return IntV{ite("(>= "+d+" 0)", "(div "+d+" 1000000)", "(- (div (- "+d+") 1000000))")}, true
		case "Nanoseconds":
			return IntV{d}, true
		}
	case "":
		switch name {
		case "Now":
			return TimeV{e.fresh("now", "Int")}, true
		case "Since":
			if t, ok := tv(0); ok {
				return IntV{"(- " + e.fresh("now", "Int") + " " + t + ")"}, true
			}
		case "Unix":
			return TimeV{"(+ (* " + termOf(args[0]) + " " + nsPerSec + ") " + termOf(args[1]) + ")"}, true
		case "Date":
			// time.Date(y, m, d, 0, 0, 0, 0, time.UTC): the start of a UTC calendar day
			if len(args) == 8 {
				zero := true
				for _, a := range args[3:7] {
					if n, ok := litInt(termOf(a)); !ok || n != 0 {
						zero = false
					}
				}
				isUTC := false
				switch loc := args[7].(type) {
				case OpaqueV:
					isUTC = strings.Contains(loc.T, "time.UTC")
				case PtrV:
					isUTC = strings.Contains(loc.Name, "time.UTC")
				}
				if zero && isUTC {
					e.calendarAxiom()
					d := "(uf_dateUTC " + termOf(args[0]) + " " + termOf(args[1]) + " " + termOf(args[2]) + ")"
					e.markUTC(d)
					return TimeV{d}, true
				}
			}
			return nil, false
		}
	}
	return nil, false
}

var storeRe = regexp.MustCompile(`^\(store (.*) (\d+) ([^\s()]+)\)$`)

func (e *Engine) sprintfModel(st *State, format Val, argv Val) (string, bool) {
	fs, ok := format.(StrV)
	if !ok {
		return "", false
	}
	lit, isLit := smtStringLiteral(fs.T)
	if !isLit {
		return "", false
	}
	sv, ok := argv.(SliceV)
	if !ok || sv.Arr == nil {
		return "", false
	}
	n, isN := litInt(sv.Len)
	if !isN || sv.Off != "0" {
		return "", false
	}
	term, ok := e.arr(st, sv.Arr)[".u"]
	if !ok {
		return "", false
	}
	term = e.expandDefs(term)
	elems := map[int64]string{}
	for {
		m := storeRe.FindStringSubmatch(term)
		if m == nil {
			break
		}
		idx, _ := strconv.ParseInt(m[2], 10, 64)
		if _, seen := elems[idx]; !seen {
			elems[idx] = m[3]
		}
		term = m[1]
	}
	var parts []string
	arg := int64(0)
	text := ""
	flush := func() {
		if text != "" {
			parts = append(parts, smtString(text))
			text = ""
		}
	}
	for i := 0; i < len(lit); i++ {
		if lit[i] != '%' {
			text += string(lit[i])
			continue
		}
		if i+1 >= len(lit) {
			return "", false
		}
		verb := lit[i+1]
		i++
		if verb == '%' {
			text += "%"
			continue
		}
		if verb != 'd' && verb != 'v' && verb != 's' {
			return "", false
		}
		if arg >= n {
			return "", false
		}
		sym, ok := elems[arg]
		arg++
		if !ok {
			return "", false
		}
		bv, ok := e.boxed[sym]
		if !ok {
			return "", false
		}
		flush()
		switch x := bv.(type) {
		case IntV:
			if verb == 's' {
				return "", false
			}
			parts = append(parts, "(ite (>= "+x.T+" 0) (str.from_int "+x.T+") (str.++ \"-\" (str.from_int (- "+x.T+"))))")
		case StrV:
			if verb == 'd' {
				return "", false
			}
			parts = append(parts, x.T)
		default:
			return "", false
		}
	}
	flush()
	if arg != n {
		return "", false
	}
	switch len(parts) {
	case 0:
		return "\"\"", true
	case 1:
		return parts[0], true
	}
	return "(str.++ " + strings.Join(parts, " ") + ")", true
}
