package main

import "strings"

// bytesEqual models bytes.Equal(a, b) as an uninterpreted function of the two slices' contents (offset, length and
// backing array of each), with the two facts the contracts need: equal answers imply equal lengths, and a slice equals
// itself. Equal contents of different arrays are not recognised as equal (sound for `==> bytes.Equal(...)` goals: they
// are then not provable, never wrongly provable).
func (e *Engine) bytesEqual(st *State, a, b Val) (Val, bool) {
	x, ok1 := a.(SliceV)
	y, ok2 := b.(SliceV)
	if !ok1 || !ok2 || x.Arr == nil || y.Arr == nil {
		return nil, false
	}
	ta, sa := e.flatTerms(st, x)
	tb, sb := e.flatTerms(st, y)
	if ta == nil || tb == nil {
		return nil, false
	}
	name := "uf_bytes_equal_" + clean(strings.Join(append(append([]string{}, sa...), sb...), "_"))
	e.declUF(name, "("+strings.Join(append(append([]string{}, sa...), sb...), " ")+") Bool")
	app := "(" + name + " " + strings.Join(append(append([]string{}, ta...), tb...), " ") + ")"
	e.fact(imp(app, eq(x.Len, y.Len)))
	var same []string
	for i := range ta {
		if i < len(tb) && i != 2 { // the nil flag does not matter: a nil slice equals an empty one
			same = append(same, eq(ta[i], tb[i]))
		}
	}
	if len(ta) == len(tb) {
		e.fact(imp(and(same...), app))
	}
	e.trustedUsed["bytes.Equal: a function of the two contents; equal implies equal lengths; every slice equals itself"] = true
	return BoolV{app}, true
}
