package main

import (
	"fmt"
	"go/ast"
	"go/types"
	"strings"

	"golang.org/x/tools/go/ssa"
)

// calleeInfo resolves the function a result_of(...) / called(...) reference names: its full name (as go/ssa prints
// static callees) and the Go type of the referenced result.
func (lc *lowerCtx) calleeInfo(ex ast.Expr, fd *ast.FuncDecl, lit *ast.FuncLit, idx int) (string, string, error) {
	pos := fd.Body.Rbrace
	if lit != nil {
		pos = lit.Body.Rbrace
	}
	info := &types.Info{Types: map[ast.Expr]types.TypeAndValue{}, Uses: map[*ast.Ident]types.Object{}, Selections: map[*ast.SelectorExpr]*types.Selection{}}
	if err := types.CheckExpr(lc.pkg.Fset, lc.pkg.Types, pos, ex, info); err != nil {
		return "", "", err
	}
	var fn *types.Func
	ast.Inspect(ex, func(n ast.Node) bool {
		switch x := n.(type) {
		case *ast.SelectorExpr:
			if sel, ok := info.Selections[x]; ok {
				if f, ok := sel.Obj().(*types.Func); ok {
					fn = f
				}
			} else if f, ok := info.Uses[x.Sel].(*types.Func); ok {
				fn = f
			}
		case *ast.Ident:
			if f, ok := info.Uses[x].(*types.Func); ok && fn == nil {
				fn = f
			}
		}
		return true
	})
	if fn == nil {
		// a value of function type (field, variable): matched by the identity of the function value
		if sig, ok := info.Types[ex].Type.Underlying().(*types.Signature); ok {
			if idx < 0 {
				return "<dynamic>", "bool", nil
			}
			if idx >= sig.Results().Len() {
				return "", "", fmt.Errorf("result index %d out of range", idx)
			}
			return "<dynamic>", types.TypeString(sig.Results().At(idx).Type(), lc.g.qualifier), nil
		}
		return "", "", fmt.Errorf("not a function")
	}
	sig := fn.Type().(*types.Signature)
	if idx < 0 {
		return fn.FullName(), "bool", nil
	}
	if idx >= sig.Results().Len() {
		return "", "", fmt.Errorf("result index %d out of range", idx)
	}
	return fn.FullName(), types.TypeString(sig.Results().At(idx).Type(), lc.g.qualifier), nil
}

// callRefValue gives the value a gocvcall_<n> parameter stands for: the idx-th result of the call of the named callee
// made by the executed function (merged over the call sites; unconstrained where no call was made), or, for
// called(f), the condition under which such a call was made.
func (e *Engine) callRefValue(ref callRef, st *State, t types.Type) Val {
	var evs []Event
	for _, ev := range e.events {
		if ref.dynT != "" {
			if ev.Callee == "<dynamic>" && ev.RecvT != "" {
				ev.Guard = and(ev.Guard, eq(ref.dynT, ev.RecvT))
				if ev.Guard != "false" {
					evs = append(evs, ev)
				}
			}
			continue
		}
		if ev.Static != nil && (ev.Static.String() == ref.callee || staticFullName(ev.Static) == ref.callee) {
			evs = append(evs, ev)
		}
		// interface method, written x.M where x has interface type: "(pkg.Iface).M" matches every invoke of M
		if ev.Static == nil && ev.Iface != "" && strings.HasPrefix(ref.callee, "(") && strings.HasSuffix(ref.callee, ")."+ev.Callee) && !strings.HasPrefix(ref.callee, "(*") {
			evs = append(evs, ev)
		}
	}
	if ref.idx < 0 {
		var gs []string
		for _, ev := range evs {
			gs = append(gs, ev.Guard)
		}
		return BoolV{or(gs...)}
	}
	saveOut := e.mergeOut
	e.mergeOut = st // merged backing arrays of slice results live in the state the clause is evaluated in
	defer func() { e.mergeOut = saveOut }()
	acc := e.symbolic(st, t, "nocall_"+clean(ref.callee))
	if ref.last {
		for i, j := 0, len(evs)-1; i < j; i, j = i+1, j-1 {
			evs[i], evs[j] = evs[j], evs[i]
		}
	}
	for i := len(evs) - 1; i >= 0; i-- {
		if ref.idx < len(evs[i].Res) {
			acc = e.mergeVal(evs[i].Guard, evs[i].Res[ref.idx], acc, st, st, "result_of")
		}
	}
	return acc
}

func staticFullName(fn *ssa.Function) string {
	if obj, ok := fn.Object().(*types.Func); ok && obj != nil {
		return obj.FullName()
	}
	return strings.TrimSpace(fn.String())
}
