package main

import (
	"fmt"
	"go/token"
	"go/types"
	"strings"

	"golang.org/x/tools/go/ssa"
)

func (e *Engine) results(st *State, sig *types.Signature, name string) Val {
	var rs []Val
	for i := 0; i < sig.Results().Len(); i++ {
		rs = append(rs, e.symbolic(st, sig.Results().At(i).Type(), fmt.Sprintf("%s_r%d", name, i)))
	}
	return pack(rs)
}

func (e *Engine) snapshot(st *State, v Val) Val {
	switch x := v.(type) {
	case PtrV:
		c := x.Cell
		if c == nil {
			c = e.ptrCell[x.Name]
		}
		if c == nil && e.mergedCell != nil {
			c = e.mergedCell[x.Name] // the stand-in object of a pointer merged from several objects
		}
		var content Val
		if c != nil {
			if cv, ok := st.cells[c]; ok {
				content = cv
			} else if cv, ok := e.inputCells[c]; ok {
				content = cv
			}
		}
		if content == nil {
			if stt, ok := x.Elem.Underlying().(*types.Struct); ok && x.Nil != "true" {
				// not yet materialised input object: its fields are the deterministic lazy symbols
				content = StructV{Typ: stt, F: make([]Val, stt.NumFields()), Sym: x.Name}
			}
		}
		return SnapPtr{Nil: x.Nil, Content: content, Cell: c, ElemT: x.Elem, Name: x.Name}
	case OptV:
		if x.Cell != nil {
			return OptV{Nil: x.Nil, V: e.optSnapshot(x, st), Elem: x.Elem}
		}
	}
	return v
}

func (e *Engine) record(ev Event) {
	if e.pure == 0 {
		ev.Seq = len(e.events)
		ev.InLoop = e.inLoop > 0
		ev.Loops = append([]int(nil), e.loopStack...)
		if e.curState != nil && e.fc != nil && len(e.fc.EffectCl) > 0 {
			ev.St = e.curState.clone() // the heap at the time of the call: effect conditions look through pointers in it
		}
		e.events = append(e.events, ev)
		e.applyHistory(ev)
	}
}

func (e *Engine) doCommon(f *frame, st *State, cc *ssa.CallCommon, reach string, pos token.Pos, site *ssa.Call) (Val, *State, string) {
	var args []Val
	for _, a := range cc.Args {
		args = append(args, e.get(f, st, a))
	}
	var fnv Val
	if cc.IsInvoke() {
		fnv = e.get(f, st, cc.Value)
	} else if _, isB := cc.Value.(*ssa.Builtin); !isB {
		if _, isF := cc.Value.(*ssa.Function); !isF {
			fnv = e.get(f, st, cc.Value)
		}
	}
	if f.top && e.fc != nil && len(e.fc.Guards) > 0 && e.pure == 0 {
		e.lockAcquired(f, st, cc, reach, pos)
	}
	return e.doCall(f, st, cc, args, fnv, reach, pos, site)
}

// lockAcquired implements `guards p.mu p.f ...`: when the function under contract acquires p.mu, whatever it knew about
// the guarded fields is forgotten (another goroutine may have written them while the lock was not held). What the
// function reads from them before the lock is therefore unrelated to what it sees after it.
func (e *Engine) lockAcquired(f *frame, st *State, cc *ssa.CallCommon, reach string, pos token.Pos) {
	callee, ok := cc.Value.(*ssa.Function)
	if !ok || callee.Pkg == nil || callee.Pkg.Pkg.Path() != "sync" || (callee.Name() != "Lock" && callee.Name() != "RLock") || len(cc.Args) != 1 {
		return
	}
	fa, ok := cc.Args[0].(*ssa.FieldAddr)
	if !ok {
		return
	}
	pt, ok := fa.X.Type().Underlying().(*types.Pointer)
	if !ok {
		return
	}
	stT, ok := pt.Elem().Underlying().(*types.Struct)
	if !ok {
		return
	}
	lockField := stT.Field(fa.Field).Name()
	owner := ""
	switch x := fa.X.(type) {
	case *ssa.Parameter:
		owner = x.Name()
	case *ssa.UnOp:
		if al, ok := x.X.(*ssa.Alloc); ok {
			owner = al.Comment
		}
	case *ssa.FreeVar:
		owner = x.Name()
	}
	for _, g := range e.fc.Guards {
		if g[0] != owner+"."+lockField {
			continue
		}
		pv, ok := e.get(f, st, fa.X).(PtrV)
		if !ok {
			panic(unsupported{"guards: the owner of " + g[0] + " is not a tracked object"})
		}
		pv = e.materialise(st, pv, reach, pos)
		for _, gf := range g[1:] {
			e.havocFieldOf(st, pv, strings.TrimPrefix(gf, owner+"."), "guarded_"+lockField)
		}
	}
}

// havocFieldOf forgets one field of the object behind pv.
func (e *Engine) havocFieldOf(st *State, pv PtrV, field string, tag string) {
	sv, ok := st.cells[pv.Cell].(StructV)
	if !ok {
		return
	}
	for k := 0; k < sv.Typ.NumFields(); k++ {
		if sv.Typ.Field(k).Name() == field {
			old := e.field(sv, k)
			nv := e.symbolic(st, sv.Typ.Field(k).Type(), tag+"_"+field)
			if osl, ok := old.(SliceV); ok && osl.Arr != nil {
				e.havocArr(st, osl.Arr)
			}
			st.cells[pv.Cell] = e.setPath(st.cells[pv.Cell], []int{k}, nv)
		}
	}
}

// calleeKeepsMemory reports whether a call is known not to write through its pointer arguments.
func (e *Engine) calleeKeepsMemory(cc *ssa.CallCommon) bool {
	if cc.IsInvoke() {
		return false
	}
	switch callee := cc.Value.(type) {
	case *ssa.Builtin:
		return callee.Name() != "copy" && callee.Name() != "clear"
	case *ssa.Function:
		p := originPkgPath(callee)
		if strings.HasPrefix(p, repoPrefix) {
			if fc := e.callContractOf(callee); fc != nil {
				return len(fc.Assigns) == 0
			}
			return strings.HasPrefix(callee.Name(), "spec")
		}
		return memorySafePkgs[p] || strings.HasPrefix(p, "go.opentelemetry.io/") || strings.HasPrefix(p, "log/")
	}
	return false
}

var memorySafePkgs = map[string]bool{"fmt": true, "errors": true, "strings": true, "strconv": true, "context": true, "time": true,
	"net": true, "net/url": true, "math": true, "sort": false, "slices": false, "unicode": true, "unicode/utf8": true, "path": true,
	"path/filepath": true, "net/http": true, "encoding/hex": true, "encoding/base64": true, "bytes": true, "log": true, "maps": true,
	"crypto/md5": true, "crypto/sha1": true, "crypto/sha256": true, "crypto/sha512": true, "regexp": true, "mime": true, "html": true, "net/textproto": true,
	"github.com/oklog/ulid/v2": true}

func (e *Engine) doCall(f *frame, st *State, cc *ssa.CallCommon, args []Val, fnv Val, reach string, pos token.Pos, site *ssa.Call) (Val, *State, string) {
	sig := cc.Signature()
	e.curState = st
	if cc.IsInvoke() {
		recvT := ""
		if ts, _ := e.flatTerms(st, fnv); len(ts) == 1 {
			recvT = ts[0]
		}
		// error.Error(), fmt.Stringer etc. have no effects worth recording
		res := e.results(st, sig, cc.Method.Name())
		var snaps []Val
		for _, a := range args {
			snaps = append(snaps, e.snapshot(st, a))
		}
		iface := ""
		if cc.Value != nil {
			iface = types.TypeString(cc.Value.Type(), nil)
		}
		var ats []types.Type
		for _, a := range cc.Args {
			ats = append(ats, a.Type())
		}
		e.record(Event{Guard: reach, Recv: fnv, RecvT: recvT, Callee: cc.Method.Name(), Iface: iface, Args: snaps, ArgTypes: ats, Res: asList(res), Pos: pos})
		e.ifaceFacts(iface, cc.Method.Name(), args, asList(res), reach)
		if e.pure == 0 {
			for i, a := range args {
				if _, isPtr := cc.Args[i].Type().Underlying().(*types.Pointer); isPtr && !e.ctx.ifaceKeepsArgs(iface, cc.Method.Name()) {
					e.havocPointee(st, a, "invoke")
				}
				if sv, ok := a.(SliceV); ok && isByteSlice(cc.Args[i].Type()) && sv.Arr != nil && (cc.Method.Name() == "Read" || cc.Method.Name() == "ReadAt") {
					e.havocArr(st, sv.Arr)
				}
			}
		}
		return res, st, reach
	}
	switch callee := cc.Value.(type) {
	case *ssa.Builtin:
		return e.builtin(f, st, callee, cc, args, reach, pos)
	case *ssa.Function:
		return e.callFunc(f, st, callee, nil, args, sig, reach, pos)
	}
	if af := e.ctx.aliasCallee(cc.Value); af != nil {
		return e.callFunc(f, st, af, nil, args, sig, reach, pos)
	}
	if fv, ok := fnv.(FuncV); ok {
		if fv.Nil != "" {
			reach = and(reach, not(fv.Nil)) // calling a nil function value panics: execution only continues when it is not nil
		}
		return e.callFunc(f, st, fv.Fn, fv.Bind, args, sig, reach, pos)
	}
	// range-over-func: seq(yield) is a loop whose body is the synthetic yield closure
	if len(args) == 1 {
		if yv, ok := args[0].(FuncV); ok && yv.Fn.Synthetic == "range-over-func yield" && e.pure == 0 {
			nst, nreach := e.yieldLoop(f, st, yv, reach, pos)
			return TupleV(nil), nst, nreach
		}
	}
	// dynamic call of an unknown function value
	res := e.results(st, sig, "dyn")
	var snaps []Val
	for _, a := range args {
		snaps = append(snaps, e.snapshot(st, a))
	}
	recvT := ""
	if ov, ok := fnv.(OpaqueV); ok {
		recvT = ov.T
	}
	var dynTs []types.Type
	for _, a := range cc.Args {
		dynTs = append(dynTs, a.Type())
	}
	e.record(Event{Guard: reach, RecvT: recvT, Callee: "<dynamic>", Args: snaps, ArgTypes: dynTs, Res: asList(res), Pos: pos})
	if e.pure == 0 {
		for _, a := range args {
			e.havocPointee(st, a, "dyn")
		}
	}
	return res, st, reach
}

func isByteSlice(t types.Type) bool {
	s, ok := t.Underlying().(*types.Slice)
	return ok && isInteger(s.Elem()) && intWidth(s.Elem()) == 8
}

func (e *Engine) builtin(f *frame, st *State, callee *ssa.Builtin, cc *ssa.CallCommon, args []Val, reach string, pos token.Pos) (Val, *State, string) {
	sig := cc.Signature()
	switch callee.Name() {
	case "len", "cap":
		switch sv := args[0].(type) {
		case SliceV:
			if callee.Name() == "len" {
				return IntV{sv.Len}, st, reach
			}
			if e.pure == 0 {
				return IntV{e.capTerm(sv)}, st, reach
			}
		case StrV:
			if e.bv() {
				break
			}
			return IntV{"(str.len " + sv.T + ")"}, st, reach
		case ArrPtrV:
			return IntV{e.lit(sv.N)}, st, reach
		case OpaqueV:
			// len of a map / channel: a function of its identity (maps are not updated where this matters: see maps.go)
			if callee.Name() == "len" && !e.bv() {
				e.declUF("uf_len", "(U) Int")
				n := "(uf_len " + sv.T + ")"
				e.fact("(>= " + n + " 0)")
				e.fact(imp(eq(sv.T, "nilU"), eq(n, "0")))
				return IntV{n}, st, reach
			}
		}
		n := e.fresh(callee.Name(), e.idxSort())
		if !e.bv() {
			e.fact("(and (>= " + n + " 0) (<= " + n + " 9223372036854775807))")
		}
		return IntV{n}, st, reach
	case "min", "max":
		acc := args[0]
		for _, b := range args[1:] {
			switch a := acc.(type) {
			case IntV:
				c, _ := e.intBinop(token.LEQ, a.T, termOf(b), cc.Args[0].Type(), cc.Args[0].Type())
				if callee.Name() == "min" {
					acc = IntV{ite(c.(BoolV).T, a.T, termOf(b))}
				} else {
					acc = IntV{ite(c.(BoolV).T, termOf(b), a.T)}
				}
			case RealV:
				c := "(<= " + a.T + " " + termOf(b) + ")"
				if callee.Name() == "min" {
					acc = RealV{ite(c, a.T, termOf(b))}
				} else {
					acc = RealV{ite(c, termOf(b), a.T)}
				}
			default:
				return e.results(st, sig, callee.Name()), st, reach
			}
		}
		return acc, st, reach
	case "append":
		s, ok1 := args[0].(SliceV)
		x, ok2 := args[1].(SliceV)
		if ok1 && ok2 && s.Arr != nil && x.Arr != nil && !e.bv() {
			if n, isLit := litInt(x.Len); isLit && n <= 8 {
				src, add := e.arr(st, s.Arr), e.arr(st, x.Arr)
				e.ncell++
				na := &Arr{Elem: s.Arr.Elem, Leaves: s.Arr.Leaves, id: e.ncell, Name: s.Arr.Name + "_app"}
				m := map[string]string{}
				for k, t := range src {
					for i := int64(0); i < n; i++ {
						t = "(store " + t + " (+ " + e.addIdx(s.Off, s.Len) + " " + fmt.Sprint(i) + ") " + sel(add[k], e.addIdx(x.Off, fmt.Sprint(i))) + ")"
					}
					m[k] = e.share(t, e.arrSort(leafSort(na, k)))
				}
				st.arrs[na] = m
				return SliceV{Arr: na, Off: s.Off, Len: "(+ " + s.Len + " " + fmt.Sprint(n) + ")", Nil: "false"}, st, reach
			}
			// append(s, x...) with symbolic length: result contents are s followed by x (quantified)
			na := e.newArr(st, s.Arr.Elem, true, s.Arr.Name+"_app")
			delete(e.inputArrs, na)
			src, add, dst := e.arr(st, s.Arr), e.arr(st, x.Arr), st.arrs[na]
			for _, l := range na.Leaves {
				k := l.key
				e.fact("(forall ((k Int)) (! (=> (and (<= 0 k) (< k " + s.Len + ")) (= (select " + dst[k] + " k) " + sel(src[k], e.addIdx(s.Off, "k")) + ")) :pattern ((select " + dst[k] + " k))))")
				e.fact("(forall ((k Int)) (! (=> (and (<= 0 k) (< k " + x.Len + ")) (= (select " + dst[k] + " (+ " + s.Len + " k)) " + sel(add[k], e.addIdx(x.Off, "k")) + ")) :pattern ((select " + dst[k] + " (+ " + s.Len + " k)))))")
			}
			return SliceV{Arr: na, Off: "0", Len: "(+ " + s.Len + " " + x.Len + ")", Nil: and(s.Nil, eq(x.Len, "0"))}, st, reach
		}
		return e.results(st, sig, "append"), st, reach
	case "copy":
		if d, ok := args[0].(SliceV); ok && d.Arr != nil {
			e.havocArr(st, d.Arr)
			// copy returns min(len(dst), len(src))
			srcLen := ""
			switch s := args[1].(type) {
			case SliceV:
				srcLen = s.Len
			case StrV:
				if !e.bv() {
					srcLen = "(str.len " + s.T + ")"
				}
			}
			if srcLen != "" && !e.bv() {
				return IntV{ite("(<= "+d.Len+" "+srcLen+")", d.Len, srcLen)}, st, reach
			}
		}
		return e.results(st, sig, "copy"), st, reach
	case "panic":
		if e.cfg.NoPanic {
			e.oblige("nopanic", "explicit-panic", reach, "false", pos)
		}
		return TupleV(nil), st, "false"
	case "delete", "clear", "print", "println", "close":
		return TupleV(nil), st, reach
	}
	return e.results(st, sig, callee.Name()), st, reach
}

// callFunc handles a call whose target function is known.
func (e *Engine) callFunc(f *frame, st *State, callee *ssa.Function, bind []Val, args []Val, sig *types.Signature, reach string, pos token.Pos) (Val, *State, string) {
	name := callee.Name()
	switch name {
	case "vqForall":
		return e.quant("forall", args[0], args[1], args[2].(FuncV), st), st, reach
	case "vqExists":
		return e.quant("exists", args[0], args[1], args[2].(FuncV), st), st, reach
	}
	if strings.HasPrefix(name, "vqSame[") && len(args) == 2 {
		return BoolV{e.sameIdentity(st, args[0], args[1])}, st, reach
	}
	pkgPath := originPkgPath(callee)
	inRepo := strings.HasPrefix(pkgPath, repoPrefix)
	if inRepo && strings.HasPrefix(name, "spec") && callee.Parent() == nil {
		return pack(e.specCall(callee, args, st)), st, reach
	}
	if inRepo && isHistPredicate(callee) {
		if v, ok := e.pureApp(callee, args, st); ok {
			return v, st, reach
		}
		panic(unsupported{"history predicate " + name + ": arguments must be scalars or structs of scalars"})
	}
	if v, ok := e.trustedCall(callee, args, st, reach, pos); ok {
		e.trustedUsed[callee.String()] = true
		if callee.String() == "time.Now" && e.pure == 0 {
			// reading the clock is modelled (a fresh instant) and also recorded, so that contracts can name the reading
			e.curState = st
			e.record(Event{Guard: reach, Callee: callee.String(), Static: callee, Res: []Val{v}, Pos: pos})
		}
		return v, st, reach
	}
	display := fnDisplayName(callee)
	// a callee declared `pure` is a deterministic function of its arguments: at call sites (in code and in specs alike)
	// it is an uninterpreted function application; its own contract, verified separately, says what it computes
	if fc := e.callContractOf(callee); fc != nil && fc.Pure && callee != e.top {
		if v, ok := e.pureApp(callee, args, st); ok {
			e.trustedUsed["pure function (deterministic, no side effects): "+callee.String()] = true
			return v, st, reach
		}
	}
	// contract of the callee (modular reasoning)
	// (closures are executed in the context of their parent; their own contract is checked when they are verified standalone)
	if fc := e.callContractOf(callee); fc != nil && callee != e.top && callee.Parent() == nil && e.pure == 0 && !e.cfg.Inline[display] && !e.cfg.Inline[name] {
		return e.callContract(f, st, callee, fc, args, sig, reach, pos)
	}
	inlineOK := callee.Blocks != nil && e.inlineDepth < 5 && !e.cfg.Havoc[display] && !e.cfg.Havoc[name] && !e.ctx.neverInline(callee) && !e.noInline[staticFullName(callee)]
	if inlineOK {
		isClosure := callee.Parent() != nil
		samePkg := callee.Pkg != nil && callee.Pkg == e.top.Package()
		takesFunc := false
		for _, a := range args {
			if _, ok := a.(FuncV); ok {
				takesFunc = true
			}
		}
		limit := 8
		if samePkg || takesFunc {
			limit = 14
		}
		small := inRepo && len(callee.Blocks) <= limit && (!hasLoops(callee) || e.cfg.Effects && samePkg)
		forced := e.cfg.Inline[display] || e.cfg.Inline[name]
		generic := inRepo && callee.Pkg == nil // instantiated generic helper (ptrutils.ToPtr, sliceutils.Map ...)
		if forced || e.pure > 0 && inRepo || isClosure && inRepo && (!hasLoops(callee) || e.cfg.Effects) || small || generic && !hasLoops(callee) {
			if hasLoops(callee) && !e.cfg.Effects {
				panic(unsupported{"cannot inline " + display + ": it has loops"})
			}
			ownContract := isClosure && e.ctx.contractOf(callee) != nil && callee != e.top
			if ownContract {
				e.quiet++
			}
			e.inlineDepth++
			rs, nst, nreach := e.execFunc(callee, args, bind, st, reach, false)
			e.inlineDepth--
			if ownContract {
				e.quiet--
			}
			return pack(rs), nst, nreach
		}
	}
	// havoc: unknown results, memory reachable from pointer arguments forgotten
	res := e.results(st, sig, name)
	var snaps []Val
	for _, a := range args {
		snaps = append(snaps, e.snapshot(st, a))
	}
	e.record(Event{Guard: reach, Callee: callee.String(), Static: callee, Args: snaps, ArgTypes: paramTypesOf(callee), Res: asList(res), Pos: pos})
	if e.pure == 0 {
		e.havocked[callee.String()] = true
		keeps := memorySafePkgs[pkgPath] || strings.HasPrefix(pkgPath, "go.opentelemetry.io/") || strings.HasPrefix(pkgPath, "log/")
		if pkgPath == "sync" && callee.Signature.Recv() != nil {
			switch name {
			case "Lock", "Unlock", "RLock", "RUnlock":
				// a lock operation writes the lock word only; what other goroutines may do to the fields the lock
				// protects is what `guards` declares (fields not listed there are assumed stable across Lock())
				keeps = true
				e.trustedUsed["sync lock operations write only the lock; fields not listed in a `guards` directive are assumed not to be written concurrently"] = true
			}
		}
		if !keeps {
			for _, a := range args {
				e.havocPointee(st, a, name)
				if fv, ok := a.(FuncV); ok {
					e.havocClosureWrites(st, fv)
				}
			}
			for _, b := range bind {
				e.havocPointee(st, b, name)
			}
		}
	}
	return res, st, reach
}

// callContract replaces a call by the callee's contract: assert requires, havoc frame and results, assume ensures.
func (e *Engine) callContract(f *frame, st *State, callee *ssa.Function, fc *FuncContract, args []Val, sig *types.Signature, reach string, pos token.Pos) (Val, *State, string) {
	cpkg := callee.Pkg
	if cpkg == nil {
		panic(unsupported{"contract on generic instance " + callee.String()})
	}
	if goal, ok := e.evalPre(cpkg, fc, callee, args, nil, st); ok {
		e.oblige("requires", fnDisplayName(callee), reach, goal, pos)
	}
	entry := st.clone()
	// frame: pointer arguments named in assigns are forgotten
	for _, a := range fc.Assigns {
		pname, field, hasField := strings.Cut(a, ".")
		for i, p := range callee.Params {
			if p.Name() != pname {
				continue
			}
			if !hasField {
				e.havocPointee(st, args[i], a)
				continue
			}
			// assigns p.field: only that field of the object behind p is forgotten
			pv, ok := args[i].(PtrV)
			if !ok {
				continue
			}
			pv = e.materialise(st, pv, reach, pos)
			sv, ok := st.cells[pv.Cell].(StructV)
			if !ok {
				continue
			}
			for k := 0; k < sv.Typ.NumFields(); k++ {
				if sv.Typ.Field(k).Name() == field {
					old := e.field(sv, k)
					nv := e.symbolic(st, sv.Typ.Field(k).Type(), callee.Name()+"_"+field)
					if osl, ok := old.(SliceV); ok {
						// a slice field may also be written in place
						if osl.Arr != nil {
							e.havocArr(st, osl.Arr)
						}
					}
					st.cells[pv.Cell] = e.setPath(st.cells[pv.Cell], []int{k}, nv)
				}
			}
		}
	}
	res := e.results(st, sig, callee.Name())
	rs := asList(res)
	var snaps []Val
	for _, a := range args {
		snaps = append(snaps, e.snapshot(entry, a))
	}
	e.record(Event{Guard: reach, Callee: callee.String(), Static: callee, Args: snaps, ArgTypes: paramTypesOf(callee), Res: rs, Pos: pos})
	if fc.Trusted {
		e.trustedUsed["contract:"+callee.String()] = true
	}
	for _, pf := range fc.postFuncs() {
		post := cpkg.Func(pf.name)
		if post == nil {
			continue
		}
		if len(pf.calls) > 0 {
			continue // called(...) / result_of(...) speak about the callee's own trace: not a fact about this caller's
		}
		t := e.evalPost(cpkg, post, pf, fc, callee, args, rs, entry, st)
		e.fact(imp(reach, t))
	}
	return res, st, reach
}

// ---------- spec evaluation ----------

// pureCall evaluates a loop-free side-effect-free function in state st.
func (e *Engine) pureCall(fn *ssa.Function, args []Val, bind []Val, st *State) []Val {
	e.pure++
	defer func() { e.pure-- }()
	vals, _, _ := e.execFunc(fn, args, bind, st, "true", false)
	return vals
}

func (e *Engine) pureCallIn(pkg *ssa.Package, fn *ssa.Function, args []Val, bind []Val, st *State) []Val {
	save := e.pkg
	e.pkg = pkg
	defer func() { e.pkg = save }()
	return e.pureCall(fn, args, bind, st)
}

func (e *Engine) quant(kind string, lo, hi Val, f FuncV, st *State) Val {
	e.nfresh++
	k := fmt.Sprintf("k!%d", e.nfresh)
	saveDecls := len(e.decls)
	saveFacts := len(e.facts)
	body := e.pureCall(f.Fn, []Val{IntV{k}}, f.Bind, st)[0].(BoolV)
	// definitions introduced while evaluating the body may mention the bound variable: inline them back
	bodyT := body.T
	for i := len(e.decls) - 1; i >= saveDecls; i-- {
		d := e.decls[i]
		if strings.HasPrefix(d, "(define-fun d!") {
			parts := strings.SplitN(d[len("(define-fun "):len(d)-1], " ", 4)
			bodyT = replaceSym(bodyT, parts[0], parts[3])
			for j := i + 1; j < len(e.decls); j++ {
				e.decls[j] = replaceSym(e.decls[j], parts[0], parts[3])
			}
			for j := saveFacts; j < len(e.facts); j++ {
				e.facts[j] = replaceSym(e.facts[j], parts[0], parts[3])
			}
			e.decls = append(e.decls[:i], e.decls[i+1:]...)
		}
	}
	// facts created while evaluating the body (range facts of array reads) that mention the bound variable become quantified
	var keep []string
	var local []string
	for j, fct := range e.facts {
		if j >= saveFacts && containsSym(fct, k) {
			local = append(local, fct)
			continue
		}
		keep = append(keep, fct)
	}
	e.facts = keep
	for _, l := range local {
		e.facts = append(e.facts, "(forall (("+k+" Int)) "+l+")")
	}
	var rng string
	if e.bv() {
		panic(unsupported{"quantifier in bit-vector mode"})
	}
	rng = and("(<= "+termOf(lo)+" "+k+")", "(< "+k+" "+termOf(hi)+")")
	if kind == "forall" {
		return BoolV{"(forall ((" + k + " Int)) (=> " + rng + " " + bodyT + "))"}
	}
	return BoolV{"(exists ((" + k + " Int)) (and " + rng + " " + bodyT + "))"}
}

func isSymChar(c byte) bool {
	return c >= 'a' && c <= 'z' || c >= 'A' && c <= 'Z' || c >= '0' && c <= '9' || c == '_' || c == '!' || c == '.' || c == '$'
}

// containsSym reports whether symbol sym occurs in s as a whole token.
func containsSym(s, sym string) bool {
	for i := 0; ; {
		j := strings.Index(s[i:], sym)
		if j < 0 {
			return false
		}
		j += i
		end := j + len(sym)
		if (j == 0 || !isSymChar(s[j-1])) && (end == len(s) || !isSymChar(s[end])) {
			return true
		}
		i = j + 1
	}
}

func replaceSym(s, sym, by string) string {
	if !strings.Contains(s, sym) {
		return s
	}
	var sb strings.Builder
	for i := 0; i < len(s); {
		j := strings.Index(s[i:], sym)
		if j < 0 {
			sb.WriteString(s[i:])
			break
		}
		j += i
		end := j + len(sym)
		sb.WriteString(s[i:j])
		if (j == 0 || !isSymChar(s[j-1])) && (end == len(s) || !isSymChar(s[end])) {
			sb.WriteString(by)
		} else {
			sb.WriteString(sym)
		}
		i = end
	}
	return sb.String()
}

// specCall evaluates a spec function. Non-recursive ones are unfolded; recursive ones become define-fun-rec.
func (e *Engine) specCall(fn *ssa.Function, args []Val, st *State) []Val {
	if !e.ctx.isRecursive(fn) {
		save := e.pkg
		if fn.Pkg != nil {
			e.pkg = fn.Pkg
		}
		defer func() { e.pkg = save }()
		return e.pureCall(fn, args, nil, st)
	}
	name := "rec_" + clean(fn.String())
	// flatten arguments to terms
	var ts, ss []string
	for _, a := range args {
		t, s := e.flatTerms(st, a)
		if t == nil {
			panic(unsupported{"recursive spec function argument not flattenable: " + fn.String()})
		}
		ts, ss = append(ts, t...), append(ss, s...)
	}
	rt := fn.Signature.Results().At(0).Type()
	rs, ok := e.scalarSort(rt)
	if !ok {
		panic(unsupported{"recursive spec function must return a scalar: " + fn.String()})
	}
	if !e.recDefs[name] {
		e.recDefs[name] = true
		// build the body once over formal parameters
		var formals []string
		var fargs []Val
		sub := newState()
		for i, p := range fn.Params {
			v := e.formal(sub, p.Type(), fmt.Sprintf("%s_p%d", name, i), &formals)
			fargs = append(fargs, v)
		}
		saveDecls := len(e.decls)
		saveFacts := len(e.facts)
		save := e.pkg
		if fn.Pkg != nil {
			e.pkg = fn.Pkg
		}
		body := e.pureCall(fn, fargs, nil, sub)
		e.pkg = save
		bodyT := termOf(body[0])
		// inline local definitions (they may mention the formals)
		for i := len(e.decls) - 1; i >= saveDecls; i-- {
			d := e.decls[i]
			if strings.HasPrefix(d, "(define-fun d!") {
				parts := strings.SplitN(d[len("(define-fun "):len(d)-1], " ", 4)
				bodyT = replaceSym(bodyT, parts[0], parts[3])
				for j := i + 1; j < len(e.decls); j++ {
					e.decls[j] = replaceSym(e.decls[j], parts[0], parts[3])
				}
				e.decls = append(e.decls[:i], e.decls[i+1:]...)
			}
		}
		e.facts = e.facts[:saveFacts] // range facts over formals are dropped (they are not free constants)
		e.decls = append(e.decls, "(define-fun-rec "+name+" ("+strings.Join(formals, " ")+") "+rs+" "+bodyT+")")
	}
	return []Val{e.scalarVal(rt, "("+name+" "+strings.Join(ts, " ")+")")}
}

// formal builds a value of type t over named formal parameters (for define-fun-rec bodies).
func (e *Engine) formal(st *State, t types.Type, name string, formals *[]string) Val {
	if s, ok := e.scalarSort(t); ok {
		*formals = append(*formals, "("+name+" "+s+")")
		return e.scalarVal(t, name)
	}
	switch u := t.Underlying().(type) {
	case *types.Slice:
		a := &Arr{Elem: u.Elem(), Name: name}
		e.flatten(u.Elem(), "", &a.Leaves)
		e.ncell++
		a.id = e.ncell
		*formals = append(*formals, "("+name+"_off Int)", "("+name+"_len Int)", "("+name+"_nil Bool)")
		m := map[string]string{}
		for _, l := range a.Leaves {
			fn := name + strings.ReplaceAll(l.key, ".", "_")
			*formals = append(*formals, "("+fn+" "+e.arrSort(l.sort)+")")
			m[l.key] = fn
		}
		st.arrs[a] = m
		return SliceV{Arr: a, Off: name + "_off", Len: name + "_len", Nil: name + "_nil"}
	case *types.Pointer:
		if _, ok := e.scalarSort(u.Elem()); ok {
			*formals = append(*formals, "("+name+"_nil Bool)")
			return OptV{Nil: name + "_nil", V: e.formal(st, u.Elem(), name+"_val", formals), Elem: u.Elem()}
		}
	case *types.Struct:
		sv := StructV{Typ: u}
		for i := 0; i < u.NumFields(); i++ {
			sv.F = append(sv.F, e.formal(st, u.Field(i).Type(), fmt.Sprintf("%s_%d", name, i), formals))
		}
		return sv
	}
	if isError(t) {
		*formals = append(*formals, "("+name+" Int)")
		return ErrV{name}
	}
	*formals = append(*formals, "("+name+" U)")
	return OpaqueV{name}
}

// yieldLoop models `for x := range seq { body }` where seq is an opaque iterator: the synthetic yield closure is the loop
// body.  The loop is cut by the invariants `loop yN` of the function under contract (N = ordinal of the range-over-func
// loop in the function); in effects mode a missing invariant is `true`.
// Assumption (recorded): the iterator calls yield sequentially, stops after yield returns false, and does nothing else.
func (e *Engine) yieldLoop(f *frame, st *State, yv FuncV, reach string, pos token.Pos) (*State, string) {
	e.note("range-over-func iterator assumed well-behaved (sequential yields, stops on false)")
	ord := 0
	if p := yv.Fn.Parent(); p != nil {
		k := 0
		for _, a := range p.AnonFuncs {
			if a == yv.Fn {
				ord = k
			}
			if a.Synthetic == "range-over-func yield" {
				k++
			}
		}
	}
	var invs []*ssa.Function
	if f.top && e.fc != nil {
		for _, name := range e.fc.invFuncs(1000 + ord) {
			if m := e.pkg.Func(name); m != nil {
				invs = append(invs, m)
			}
		}
	}
	if len(invs) == 0 && !e.cfg.Effects {
		panic(unsupported{fmt.Sprintf("range-over-func loop y%d of %s has no invariant", ord, f.fn.Name())})
	}
	evalInv := func(s *State) string {
		var conj []string
		for _, inv := range invs {
			as := e.bindLowered(inv, func(name string) (Val, bool) {
				if c, ok := f.named[name]; ok {
					return s.cells[c], true
				}
				for i, fp := range f.fn.Params {
					if fp.Name() == name {
						return f.env[f.fn.Params[i]], true
					}
				}
				return nil, false
			})
			conj = append(conj, e.pureCall(inv, as, nil, s)[0].(BoolV).T)
		}
		return and(conj...)
	}
	if len(invs) > 0 {
		e.oblige("inv-entry", fmt.Sprintf("loopy%d", ord), reach, evalInv(st), pos)
	}
	// forget every captured cell the body stores to
	written := map[int]bool{}
	for _, b := range yv.Fn.Blocks {
		for _, ins := range b.Instrs {
			if s, ok := ins.(*ssa.Store); ok {
				if fv, ok := rootOf(s.Addr).(*ssa.FreeVar); ok {
					for i, x := range yv.Fn.FreeVars {
						if x == fv {
							written[i] = true
						}
					}
				}
			}
		}
	}
	var jumpCell *Cell
	for i, fv := range yv.Fn.FreeVars {
		if !written[i] || i >= len(yv.Bind) {
			continue
		}
		if strings.HasPrefix(fv.Name(), "jump$") {
			if ov, ok := yv.Bind[i].(OptV); ok {
				jumpCell = ov.Cell
			}
			if av, ok := yv.Bind[i].(AddrV); ok {
				jumpCell = av.Cell
			}
			continue
		}
		e.havocAddr(st, yv.Bind[i], fv.Name())
	}
	if jumpCell != nil {
		st.cells[jumpCell] = IntV{e.lit(0)}
	}
	if len(invs) > 0 {
		e.fact(imp(reach, evalInv(st)))
	}
	head := st.clone()
	// one arbitrary iteration
	var yargs []Val
	for _, p := range yv.Fn.Params {
		yargs = append(yargs, e.symbolic(st, p.Type(), "yield_"+p.Name()))
	}
	e.inLoop++
	e.inlineDepth++
	saveTop := f.top
	vals, out, r := e.execFunc(yv.Fn, yargs, yv.Bind, st, reach, false)
	f.top = saveTop
	e.inlineDepth--
	e.inLoop--
	if r == "false" || len(vals) != 1 {
		return head, reach
	}
	cont := vals[0].(BoolV).T
	if len(invs) > 0 {
		e.oblige("inv-preserved", fmt.Sprintf("loopy%d", ord), and(r, cont), evalInv(out), pos)
	}
	// after the loop: either the sequence was exhausted (state at the head) or the body returned false
	ex := e.fresh("seq_exhausted", "Bool")
	e.fact(imp(and(reach, not(ex)), and(r, not(cont))))
	merged := e.mergeStates([]guarded{{g: ex, s: head}, {g: "true", s: out}})
	return merged, reach
}

func paramTypesOf(fn *ssa.Function) []types.Type {
	var out []types.Type
	for _, p := range fn.Params {
		out = append(out, p.Type())
	}
	return out
}
