package main

// capTerm is cap(sv): the size of the backing array minus the slice's offset. The size of a backing array is fixed
// when the array is made (make) or is an unknown value not smaller than any slice seen over it.
func (e *Engine) capTerm(sv SliceV) string {
	if sv.Arr == nil {
		return sv.Len
	}
	if e.arrCap == nil {
		e.arrCap = map[*Arr]string{}
	}
	a, ok := e.arrCap[sv.Arr]
	if !ok {
		a = e.fresh("cap_"+sv.Arr.Name, e.idxSort())
		e.arrCap[sv.Arr] = a
	}
	if !e.bv() {
		e.fact("(>= " + a + " (+ " + sv.Off + " " + sv.Len + "))")
		if sv.Off == "0" {
			return a
		}
		return "(- " + a + " " + sv.Off + ")"
	}
	return "(bvsub " + a + " " + sv.Off + ")"
}
