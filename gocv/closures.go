package main

import (
	"go/types"

	"golang.org/x/tools/go/ssa"
)

// havocClosureWrites forgets the captured cells a closure may store to (directly or through nested closures): used
// when the closure is handed to a callee whose body is not executed.
func (e *Engine) havocClosureWrites(st *State, fv FuncV) {
	e.note("closure passed to an abstracted callee: the cells it may write are forgotten, its body is not analysed")
	seen := map[*ssa.Function]bool{}
	var visit func(fn *ssa.Function, bind []Val)
	visit = func(fn *ssa.Function, bind []Val) {
		if seen[fn] || fn.Blocks == nil {
			return
		}
		seen[fn] = true
		for _, b := range fn.Blocks {
			for _, ins := range b.Instrs {
				switch x := ins.(type) {
				case *ssa.Store:
					if f, ok := rootOf(x.Addr).(*ssa.FreeVar); ok {
						for i, y := range fn.FreeVars {
							if y == f && i < len(bind) {
								e.havocAddr(st, bind[i], f.Name())
								e.havocPointee(st, bind[i], f.Name())
							}
						}
					}
				case *ssa.MakeClosure:
					var nb []Val
					for _, bnd := range x.Bindings {
						if f, ok := bnd.(*ssa.FreeVar); ok {
							for i, y := range fn.FreeVars {
								if y == f && i < len(bind) {
									nb = append(nb, bind[i])
								}
							}
						} else {
							nb = append(nb, nil)
						}
					}
					visit(x.Fn.(*ssa.Function), nb)
				}
			}
		}
	}
	visit(fv.Fn, fv.Bind)
}

// frameObligations: a function under contract that has no `assigns` clause must leave the objects its pointer
// parameters (and receiver) point to unchanged.
func (e *Engine) frameObligations(fc *FuncContract, fn *ssa.Function, args []Val, exit *State, reach string) {
	assigned := map[string]bool{}
	for _, a := range fc.Assigns {
		assigned[a] = true
	}
	for i, a := range args {
		if i >= len(fn.Params) || assigned[fn.Params[i].Name()] || assigned["*"] {
			continue
		}
		pv, ok := a.(PtrV)
		if !ok {
			continue
		}
		c := pv.Cell
		if c == nil {
			c = e.ptrCell[pv.Name]
		}
		if c == nil {
			continue // never dereferenced
		}
		entryV, ok1 := e.inputCells[c]
		exitV, ok2 := exit.cells[c]
		if !ok1 || !ok2 {
			continue
		}
		goal := e.sameShallow(entryV, exitV, exit)
		if ev, ok := entryV.(StructV); ok {
			if xv, ok := exitV.(StructV); ok && len(ev.F) == len(xv.F) {
				// field-level assigns: param.field entries exempt single fields
				var cs []string
				for k := range ev.F {
					if assigned[fn.Params[i].Name()+"."+ev.Typ.Field(k).Name()] {
						continue
					}
					if ev.F[k] == nil && xv.F[k] == nil && ev.Sym == xv.Sym {
						continue
					}
					if ev.F[k] == nil && ev.Sym != "" && xv.F[k] == nil {
						continue
					}
					cs = append(cs, e.sameShallow(e.field(ev, k), e.field(xv, k), exit))
				}
				goal = and(cs...)
			}
		}
		e.oblige("frame", fn.Params[i].Name(), reach, goal, fn.Pos())
	}
}

// sameShallow compares two values of the same type field by field (scalars, optionals by value, pointers by nil-ness and identity).
func (e *Engine) sameShallow(a, b Val, st *State) string {
	switch x := a.(type) {
	case StructV:
		y, ok := b.(StructV)
		if !ok || len(x.F) != len(y.F) {
			return "false"
		}
		var cs []string
		for i := range x.F {
			if x.F[i] == nil && y.F[i] == nil && x.Sym == y.Sym {
				continue
			}
			if x.F[i] == nil && x.Sym != "" {
				if _, named := e.named[x.Sym+"_"+x.Typ.Field(i).Name()]; !named && y.F[i] == nil {
					continue
				}
			}
			cs = append(cs, e.sameShallow(e.field(x, i), e.field(y, i), st))
		}
		return and(cs...)
	case PtrV:
		y, ok := b.(PtrV)
		if !ok {
			return "false"
		}
		if x.Cell == y.Cell && x.Name == y.Name {
			return eq(x.Nil, y.Nil)
		}
		return and(x.Nil, y.Nil)
	case SliceV:
		y, ok := b.(SliceV)
		if !ok || x.Arr != y.Arr {
			return "false"
		}
		return and(eq(x.Len, y.Len), eq(x.Off, y.Off), eq(x.Nil, y.Nil))
	case OptV:
		y, ok := b.(OptV)
		if !ok {
			return "false"
		}
		if x.Cell != nil && x.Cell == y.Cell {
			return eq(x.Nil, y.Nil)
		}
		ta, _ := e.flatTerms(st, x)
		tb, _ := e.flatTerms(st, y)
		if len(ta) != len(tb) {
			return "false"
		}
		var cs []string
		for i := range ta {
			cs = append(cs, eq(ta[i], tb[i]))
		}
		return and(cs...)
	case FuncV:
		return "true"
	case MapV:
		return "true"
	}
	ta, _ := e.flatTerms(st, a)
	tb, _ := e.flatTerms(st, b)
	if len(ta) != len(tb) || len(ta) == 0 {
		if _, ok := a.(types.Type); ok {
			return "true"
		}
		return "true"
	}
	var cs []string
	for i := range ta {
		cs = append(cs, eq(ta[i], tb[i]))
	}
	return and(cs...)
}
