package main

import (
	"fmt"
	"go/token"
	"go/types"
	"os"
	"path/filepath"
	"sort"
	"strings"
	"sync"

	"golang.org/x/tools/go/packages"
	"golang.org/x/tools/go/ssa"
	"golang.org/x/tools/go/ssa/ssautil"
)

var repoDir = "/repo"
var verifDir = "/verif"

// Context is everything shared by the engines of one run.
type Context struct {
	prog      *ssa.Program
	fset      *token.FileSet
	pkgs      map[string]*ssa.Package // by path
	tpkgs     map[string]*packages.Package
	contracts map[string][]*FuncContract // by package path
	overlay   map[string][]byte          // file -> content (generated contract files, mutant files)
	genFiles  map[string]string          // pkg path -> generated file path
	mu        sync.Mutex
	lines     map[string][]string
	errIDs    map[string]int
	rec       map[*ssa.Function]bool
	recDone   map[*ssa.Function]bool
	findings  *FindingsFile
	rules     []*EffectRule
	prop      string // the property being checked ("" = any)
}

func (c *Context) sourceLine(file string, line int) string {
	c.mu.Lock()
	defer c.mu.Unlock()
	ls, ok := c.lines[file]
	if !ok {
		var data []byte
		if ov, ok := c.overlay[file]; ok {
			data = ov
		} else {
			data, _ = os.ReadFile(file)
		}
		ls = strings.Split(string(data), "\n")
		c.lines[file] = ls
	}
	if line-1 < len(ls) && line >= 1 {
		return ls[line-1]
	}
	return ""
}

func (c *Context) errID(name string) int {
	c.mu.Lock()
	defer c.mu.Unlock()
	id, ok := c.errIDs[name]
	if !ok {
		id = len(c.errIDs) + 1
		c.errIDs[name] = id
	}
	return id
}

func (c *Context) contractOf(fn *ssa.Function) *FuncContract {
	p := originPkgPath(fn)
	cs := c.contracts[p]
	if len(cs) == 0 {
		return nil
	}
	name := fnDisplayName(fn)
	for _, fc := range cs {
		if fc.Func == name {
			return fc
		}
	}
	return nil
}

// callContractOf is the contract a call site may rely on: one that belongs to the property being checked (its
// preconditions are then obligations of that check), or a trusted / pure declaration. Contracts written for other
// properties are not used (the callee is inlined or havocked instead, which only loses information).
func (c *Context) callContractOf(fn *ssa.Function) *FuncContract {
	return c.callContractFor(fn, c.prop)
}

func (c *Context) callContractFor(fn *ssa.Function, prop string) *FuncContract {
	p := originPkgPath(fn)
	name := fnDisplayName(fn)
	for _, fc := range c.contracts[p] {
		if fc.Func != name {
			continue
		}
		if fc.Trusted || fc.Pure || prop == "" || fc.hasProp(prop) && (!fc.FromTemplate || len(fc.Clauses) > 0 || len(fc.Assigns) > 0 || fc.Frame || len(fc.EffectCl) == 0) {
			return fc
		}
	}
	return nil
}

// callContractOf (engine): a function whose contract serves several properties (`property A B`) is verified with the
// callee contracts of each of them, whichever of them is being checked: its clauses were written against those.
func (e *Engine) callContractOf(fn *ssa.Function) *FuncContract {
	if fc := e.ctx.callContractOf(fn); fc != nil {
		return fc
	}
	if e.fc != nil {
		for _, q := range e.fc.Shared {
			if q != e.ctx.prop {
				if fc := e.ctx.callContractFor(fn, q); fc != nil {
					return fc
				}
			}
		}
	}
	return nil
}

// isRecursive reports whether a spec function can reach itself through static calls.
func (c *Context) isRecursive(fn *ssa.Function) bool {
	c.mu.Lock()
	defer c.mu.Unlock()
	if c.recDone[fn] {
		return c.rec[fn]
	}
	seen := map[*ssa.Function]bool{}
	var reach func(g *ssa.Function) bool
	reach = func(g *ssa.Function) bool {
		if seen[g] {
			return false
		}
		seen[g] = true
		for _, b := range g.Blocks {
			for _, ins := range b.Instrs {
				if call, ok := ins.(ssa.CallInstruction); ok {
					if callee := call.Common().StaticCallee(); callee != nil {
						if callee == fn {
							return true
						}
						if strings.HasPrefix(callee.Name(), "spec") && reach(callee) {
							return true
						}
					}
				}
			}
		}
		return false
	}
	r := reach(fn)
	c.recDone[fn] = true
	c.rec[fn] = r
	return r
}

// neverInline: helpers whose bodies are irrelevant to every contract and only blow up the state (response writers, logging).
func (c *Context) neverInline(fn *ssa.Function) bool {
	switch fn.Name() {
	case "handleError", "writeXMLResponse", "writeS3ErrorResponse", "writePlainError":
		return strings.HasSuffix(originPkgPath(fn), "/http/server")
	}
	return false
}

// ifaceKeepsArgs: interface methods known not to write through pointer arguments (options structs are read-only by convention
// in storage.Storage; recorded as an assumption).
func (c *Context) ifaceKeepsArgs(iface, method string) bool {
	return strings.HasSuffix(iface, "storage.Storage") || strings.HasSuffix(iface, "context.Context") || strings.HasSuffix(iface, "trace.Span") ||
		strings.HasSuffix(iface, "trace.Tracer")
}

// findContractFiles lists every zz_contracts_verif.go under the repository.
func findContractFiles() []string {
	var out []string
	filepath.Walk(filepath.Join(repoDir, "internal"), func(p string, info os.FileInfo, err error) error {
		if err == nil && !info.IsDir() && info.Name() == "zz_contracts_verif.go" {
			out = append(out, p)
		}
		return nil
	})
	filepath.Walk(filepath.Join(repoDir, "cmd"), func(p string, info os.FileInfo, err error) error {
		if err == nil && !info.IsDir() && info.Name() == "zz_contracts_verif.go" {
			out = append(out, p)
		}
		return nil
	})
	sort.Strings(out)
	return out
}

func pkgPathOfDir(dir string) string {
	rel, _ := filepath.Rel(repoDir, dir)
	return repoPrefix + "/" + filepath.ToSlash(rel)
}

// loadContext parses all contract files, lowers the contracts of the packages needed and builds SSA.
// patterns: package paths (import paths) to verify. fileOverlay: repository files replaced by mutants.
func loadContext(wantPkgs []string, fileOverlay map[string][]byte, findings *FindingsFile) (*Context, error) {
	c := &Context{pkgs: map[string]*ssa.Package{}, tpkgs: map[string]*packages.Package{}, contracts: map[string][]*FuncContract{},
		overlay: map[string][]byte{}, genFiles: map[string]string{}, lines: map[string][]string{}, errIDs: map[string]int{},
		rec: map[*ssa.Function]bool{}, recDone: map[*ssa.Function]bool{}, findings: findings}
	for k, v := range fileOverlay {
		c.overlay[k] = v
	}
	for _, f := range findContractFiles() {
		pp := pkgPathOfDir(filepath.Dir(f))
		var cs []*FuncContract
		var err error
		if ov, ok := c.overlay[f]; ok {
			cs, err = parseContractText(string(ov), f, pp)
		} else {
			cs, err = parseContractFile(f, pp)
		}
		if err != nil {
			return nil, err
		}
		c.contracts[pp] = cs
		rules, err := parseRules(f, c.overlay[f])
		if err != nil {
			return nil, err
		}
		c.rules = append(c.rules, rules...)
	}
	// phase 1: types
	tp, err := loadTypes(wantPkgs, c.overlay)
	if err != nil {
		return nil, err
	}
	var regions []Finding
	if findings != nil {
		regions = findings.Findings
	}
	packages.Visit(tp, nil, func(p *packages.Package) {
		cs := c.contracts[p.PkgPath]
		if len(cs) == 0 || len(p.GoFiles) == 0 {
			return
		}
		c.tpkgs[p.PkgPath] = p
	})
	for pp, p := range c.tpkgs {
		var rs []Finding
		for _, r := range regions {
			if r.Package == pp {
				rs = append(rs, r)
			}
		}
		// field templates are expanded textually now that the types are known; the text is then parsed again
		if cs := c.contracts[pp]; len(cs) > 0 {
			f := cs[0].File
			text := ""
			if ov, ok := c.overlay[f]; ok {
				text = string(ov)
			} else if data, rerr := os.ReadFile(f); rerr == nil {
				text = string(data)
			}
			if hasForeach(text) {
				xt, ferr := expandForeach(text, p)
				if ferr != nil {
					return nil, fmt.Errorf("%s: %v", f, ferr)
				}
				ncs, perr := parseContractText(xt, f, pp)
				if perr != nil {
					return nil, perr
				}
				c.contracts[pp] = ncs
			}
		}
		expanded, xerr := expandTemplates(p, c.contracts[pp])
		if xerr != nil {
			return nil, xerr
		}
		c.contracts[pp] = expanded
		gen, gerr := generateOverlay(p, c.contracts[pp], rs)
		if gerr != nil {
			return nil, gerr
		}
		path := filepath.Join(pkgDir(p), "zz_contracts_gen_verif.go")
		c.overlay[path] = []byte(gen)
		c.genFiles[pp] = path
		if os.Getenv("GOCV_SHOW_GEN") != "" {
			fmt.Println(gen)
		}
	}
	// phase 2: SSA with the generated contract functions
	cfg := &packages.Config{Mode: packages.LoadAllSyntax, Dir: repoDir, BuildFlags: []string{"-tags=verif"}, Overlay: c.overlay}
	pkgs, err := packages.Load(cfg, wantPkgs...)
	if err != nil {
		return nil, err
	}
	if broke := c.isolateBrokenContracts(pkgs); broke > 0 {
		// contracts that no longer type-check against this tree (a local they name changed its type, a function changed
		// its signature) are set aside - each decides nothing here - and the rest is loaded again
		for pp, path := range c.genFiles {
			// cut the lowered functions of the broken contracts out of the generated file (from their marker to the next)
			var out []string
			skip := false
			for _, line := range strings.Split(string(c.overlay[path]), "\n") {
				var ci int
				if _, err := fmt.Sscanf(line, "// gocv:contract %d", &ci); err == nil {
					skip = ci < len(c.contracts[pp]) && c.contracts[pp][ci].Broken != ""
				}
				if !skip {
					out = append(out, line)
				}
			}
			c.overlay[path] = []byte(strings.Join(out, "\n"))
		}
		pkgs, err = packages.Load(cfg, wantPkgs...)
		if err != nil {
			return nil, err
		}
	}
	if n := packages.PrintErrors(pkgs); n > 0 {
		return nil, fmt.Errorf("%d errors loading packages with generated contracts", n)
	}
	prog, _ := ssautil.AllPackages(pkgs, ssa.NaiveForm|ssa.InstantiateGenerics)
	for _, p := range prog.AllPackages() {
		if strings.HasPrefix(p.Pkg.Path(), repoPrefix) {
			p.Build()
			c.pkgs[p.Pkg.Path()] = p
		}
	}
	c.prog = prog
	c.fset = prog.Fset
	return c, nil
}

// lookupFunc resolves a contract's function name in an SSA package.
func (c *Context) lookupFunc(sp *ssa.Package, name string) *ssa.Function {
	base, anon, _ := strings.Cut(name, "$")
	var fn *ssa.Function
	if strings.HasPrefix(base, "(") {
		r, mname, _ := strings.Cut(base[1:], ").")
		obj := sp.Pkg.Scope().Lookup(strings.TrimPrefix(r, "*"))
		if obj == nil {
			return nil
		}
		T := obj.Type()
		if strings.HasPrefix(r, "*") {
			T = types.NewPointer(T)
		}
		ms := c.prog.MethodSets.MethodSet(T)
		for i := 0; i < ms.Len(); i++ {
			if ms.At(i).Obj().Name() == mname {
				fn = c.prog.MethodValue(ms.At(i))
			}
		}
	} else {
		fn = sp.Func(base)
	}
	if fn == nil || anon == "" {
		return fn
	}
	for _, ord := range strings.Split(anon, "$") {
		var n int
		fmt.Sscanf(ord, "%d", &n)
		var next *ssa.Function
		for _, a := range fn.AnonFuncs {
			if a.Name() == fmt.Sprintf("%s$%d", fn.Name(), n) {
				next = a
			}
		}
		if next == nil {
			return nil
		}
		fn = next
	}
	return fn
}

// isolateBrokenContracts attributes type errors inside generated contract files to the contract whose lowered functions
// contain them (marker comments written by generateOverlay) and marks those contracts broken. It returns their number.
func (c *Context) isolateBrokenContracts(pkgs []*packages.Package) int {
	n := 0
	packages.Visit(pkgs, nil, func(p *packages.Package) {
		gen, ok := c.genFiles[p.PkgPath]
		if !ok {
			return
		}
		lines := strings.Split(string(c.overlay[gen]), "\n")
		for _, e := range p.Errors {
			file, rest, ok := strings.Cut(e.Pos, ":")
			if !ok || file != gen {
				continue
			}
			var ln int
			fmt.Sscanf(rest, "%d", &ln)
			for i := ln - 1; i >= 0 && i < len(lines); i-- {
				var ci int
				if _, err := fmt.Sscanf(lines[i], "// gocv:contract %d", &ci); err == nil {
					if ci < len(c.contracts[p.PkgPath]) && c.contracts[p.PkgPath][ci].Broken == "" {
						c.contracts[p.PkgPath][ci].Broken = "the contract no longer type-checks against this tree: " + e.Msg
						n++
					}
					break
				}
			}
		}
	})
	return n
}
