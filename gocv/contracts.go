package main

// Contract files: comment-only Go files (build tag verif) whose `//@` lines are
// lowered mechanically to Go functions placed in an overlay file of the same
// package.  Two-phase: the packages are first loaded without the overlay to
// resolve parameter, result and local-variable types; then the generated files
// are added and the packages are loaded again for SSA construction.

import (
	"regexp"
	"fmt"
	"go/ast"
	"go/parser"
	"go/token"
	"go/types"
	"os"
	"path/filepath"
	"sort"
	"strings"

	"golang.org/x/tools/go/packages"
)

type Clause struct {
	Kind  string // requires | ensures | invariant | region
	Label string
	Loop  int
	Expr  string
	Line  int
}

type postFn struct {
	name  string
	label string
	olds  []string
	calls []callRef // result_of(f[, i]) / called(f) references, bound to gocvcall_<n>
}

// callRef names a static callee whose call in the executed function the clause speaks about.
type callRef struct {
	callee string // full name as go/ssa prints it; "<dynamic>" for a function value
	idx    int    // result index; -1 for called(f)
	dynFn  string // lowered function returning the function value (dynamic callees)
	dynT   string // its term, filled in when the clause is evaluated
	last   bool   // last_result_of: the latest call on the path, not the earliest
}

const lastCallBias = 1000

// extractCallRefs replaces result_of(f[, i]) and called(f) by gocvcall_<n> and returns the references (callee still as source text).
func extractCallRefs(s string) (string, []string, []int) {
	var exprs []string
	var idxs []int
	for _, w := range []string{"last_result_of(", "result_of(", "called("} {
		for {
			i := findWord(s, w)
			if i < 0 {
				break
			}
			depth := 0
			j := i + len(w) - 1
			for ; j < len(s); j++ {
				if s[j] == '(' {
					depth++
				} else if s[j] == ')' {
					depth--
					if depth == 0 {
						break
					}
				}
			}
			if j >= len(s) {
				break
			}
			arg := s[i+len(w) : j]
			idx := 0
			if w == "called(" {
				idx = -1
			} else if a, b, ok := splitTop(arg, ","); ok {
				arg = strings.TrimSpace(a)
				fmt.Sscanf(strings.TrimSpace(b), "%d", &idx)
			}
			if w == "last_result_of(" {
				idx += lastCallBias // the latest such call on the path instead of the earliest
			}
			exprs = append(exprs, strings.TrimSpace(arg))
			idxs = append(idxs, idx)
			s = s[:i] + fmt.Sprintf("gocvcall_%d", len(exprs)-1) + s[j+1:]
		}
	}
	return s, exprs, idxs
}

type FuncContract struct {
	PkgPath  string
	File     string
	Func     string // name as written: f, (*T).m, f$1
	Clauses  []Clause
	Props    []string
	Arith    string
	Effects  bool
	NoPanic  bool
	Trusted  bool
	Frame    bool
	Context  bool
	Pure     bool
	uniq     string
	Inline   []string
	Havoc    []string
	Assigns  []string
	Broken   string // the lowered contract does not type-check against this tree (a local it names changed its type or vanished): it decides nothing here
	Shared   []string // `property A B`: the clauses of this contract, whatever property their label names, count for each listed property
	Guards   [][]string // `guards p.mu p.f p.g`: the fields p.f, p.g are only stable while the lock p.mu is held (forgotten at every p.mu.Lock())
	Rules    []string // effect rules that apply to this function
	EffectCl []*EffectClause
	Sel      *MethodSelector // non-nil: template expanded over a method set
	RecvName string          // receiver name for functions expanded from a template
	sig      *types.Signature
	posts    []postFn
	invs     map[int][]string
	hasPre   bool
	regions  map[string]string // finding id -> lowered function name
	Line     int
	Bounded  string
	ParamSet map[string]string // notnil etc.
	FromTemplate bool // instantiated from a `methods` / `funcs` template
	TrustNonNil []string // `trust nonnil pkg.Iface`: methods of that interface return non-nil pointers when their error is nil
}

func (fc *FuncContract) base() string      { return safeName(fc.Func) + fc.uniq }
func (fc *FuncContract) preFunc() string   { return "verif_pre_" + fc.base() }
func (fc *FuncContract) postFuncs() []postFn { return fc.posts }
func (fc *FuncContract) invFuncs(loop int) []string {
	return fc.invs[loop]
}

// usesReturns: some effect clause of the contract mentions the pseudo-event returns().
func (fc *FuncContract) usesReturns() bool {
	for _, ec := range fc.EffectCl {
		for _, p := range ec.patterns() {
			if p != nil && p.returns {
				return true
			}
		}
	}
	return false
}

// counts reports whether a clause with this label is judged when property prop is checked: unlabelled clauses and
// clauses labelled for prop always are; a clause labelled for another property is when the contract declares (with
// `property`) that it serves both.
func (fc *FuncContract) counts(label, prop string) bool {
	p := propOfLabel(label)
	if p == "" || p == prop {
		return true
	}
	if fc == nil {
		return false
	}
	hasP, hasProp := false, false
	for _, s := range fc.Shared {
		if s == p {
			hasP = true
		}
		if s == prop {
			hasProp = true
		}
	}
	return hasP && hasProp
}

func (fc *FuncContract) hasProp(id string) bool {
	for _, p := range fc.Props {
		if p == id {
			return true
		}
	}
	return false
}

func parseContractFile(path, pkgPath string) ([]*FuncContract, error) {
	data, err := os.ReadFile(path)
	if err != nil {
		return nil, err
	}
	return parseContractText(string(data), path, pkgPath)
}

func parseContractText(text, path, pkgPath string) ([]*FuncContract, error) {
	var out []*FuncContract
	var cur *FuncContract
	var last *Clause
	skipTmpl := 0
	adj := 0 // `//@#line N`: the next line counts as line N (text expanded by foreach templates keeps its line numbers)
	for n0, raw := range strings.Split(text, "\n") {
		line := strings.TrimSpace(raw)
		if strings.HasPrefix(line, "//@#line ") {
			var want int
			fmt.Sscanf(line[len("//@#line "):], "%d", &want)
			adj = want - (n0 + 2)
			continue
		}
		n := n0 + adj
		if !strings.HasPrefix(line, "//@") {
			last = nil
			continue
		}
		body := line[3:]
		cont := strings.HasPrefix(body, "   ") || strings.HasPrefix(body, "\t")
		if i := strings.Index(body, " // "); i >= 0 && !strings.Contains(body[:i], "\"") {
			body = body[:i]
		}
		body = strings.TrimSpace(body)
		if body == "" {
			continue
		}
		// an unexpanded field template (foreach ... and the clause that follows it) is skipped: the text is parsed
		// again once fields.go has expanded it
		if skipTmpl == 1 && !cont {
			skipTmpl = 2
			last = nil
			continue
		}
		if skipTmpl == 2 && cont {
			continue
		}
		if skipTmpl == 2 {
			skipTmpl = 0
		}
		if cont && last != nil {
			last.Expr += " " + body
			continue
		}
		word, rest, _ := strings.Cut(body, " ")
		rest = strings.TrimSpace(rest)
		if word == "foreach" {
			skipTmpl = 1
			last = nil
			continue
		}
		switch {
		case word == "func":
			cur = &FuncContract{Func: rest, PkgPath: pkgPath, File: path, Arith: "none", invs: map[int][]string{}, regions: map[string]string{}, Line: n + 1, NoPanic: true}
			out = append(out, cur)
			last = nil
		case word == "funcs":
			// funcs having <param> <type> [matching <regexp>] [in ...] [except ...]: one contract per such function or literal
			sel, err := parseSelector(rest)
			if err != nil || !sel.Funcs {
				return nil, fmt.Errorf("%s:%d: malformed funcs selector (%v)", path, n+1, err)
			}
			cur = &FuncContract{Func: "funcs " + rest, PkgPath: pkgPath, File: path, Arith: "none", invs: map[int][]string{}, regions: map[string]string{}, Line: n + 1, Sel: sel}
			out = append(out, cur)
			last = nil
		case word == "methods":
			// methods <recvName> <*T|T> [of <pkg.Interface>] [matching <regexp>] [in A B C] [except A B C]
			sel, err := parseSelector(rest)
			if err != nil {
				return nil, fmt.Errorf("%s:%d: %v", path, n+1, err)
			}
			cur = &FuncContract{Func: "methods " + rest, PkgPath: pkgPath, File: path, Arith: "none", invs: map[int][]string{}, regions: map[string]string{}, Line: n + 1, Sel: sel, RecvName: sel.RecvName}
			out = append(out, cur)
			last = nil
		case cur == nil:
			return nil, fmt.Errorf("%s:%d: clause before any `func`", path, n+1)
		case strings.HasPrefix(word, "effect"), strings.HasPrefix(word, "history"):
			kw := "effect"
			if strings.HasPrefix(word, "history") {
				kw = "history"
			}
			label := strings.TrimSuffix(strings.TrimPrefix(strings.TrimPrefix(word, kw), "["), "]")
			ec := &EffectClause{Label: label, Line: n + 1, History: kw == "history"}
			cur.EffectCl = append(cur.EffectCl, ec)
			cur.Clauses = append(cur.Clauses, Clause{Kind: "effect", Label: label, Expr: rest, Line: n + 1})
			last = &cur.Clauses[len(cur.Clauses)-1]
			if id, _, ok := strings.Cut(label, ":"); ok && !cur.hasProp(id) {
				cur.Props = append(cur.Props, id)
			}
		case word == "property":
			cur.Props = append(cur.Props, strings.Fields(rest)...)
			cur.Shared = append(cur.Shared, strings.Fields(rest)...)
			last = nil
		case word == "arith":
			cur.Arith = rest
			last = nil
		case word == "mode":
			for _, m := range strings.Fields(rest) {
				switch m {
				case "effects":
					cur.Effects = true
					cur.NoPanic = false
				case "nopanic":
					cur.NoPanic = true
				case "nosafety":
					cur.NoPanic = false
				}
			}
			last = nil
		case word == "trusted":
			cur.Trusted = true
			last = nil
		case word == "bounded":
			// bounded <n>: number of generated inputs of the bounded stand-in search in the quick tier (thorough: x25)
			cur.Bounded = strings.TrimSpace(rest)
			last = nil
		case word == "trust":
			// trust nonnil <pkg.Interface>: a call of a method of that interface that returns a nil error returns
			// non-nil pointer results (the Go convention the code relies on without checking); listed as trusted
			ws := strings.Fields(rest)
			if len(ws) != 2 || ws[0] != "nonnil" {
				return nil, fmt.Errorf("%s:%d: want `trust nonnil <pkg.Interface>`", path, n+1)
			}
			cur.TrustNonNil = append(cur.TrustNonNil, ws[1])
			last = nil
		case word == "pure":
			cur.Pure = true // at call sites the function is an uninterpreted (deterministic) function of its arguments
			last = nil
		case word == "context":
			cur.Context = true // closure verified in the context of its enclosing function (whose parameters are in scope)
			last = nil
		case word == "frame":
			cur.Frame = true // verify that the objects behind pointer parameters are unchanged at return (except `assigns`)
			last = nil
		case word == "inline":
			cur.Inline = append(cur.Inline, strings.Fields(rest)...)
			last = nil
		case word == "havoc":
			cur.Havoc = append(cur.Havoc, strings.Fields(rest)...)
			last = nil
		case word == "assigns":
			cur.Assigns = append(cur.Assigns, strings.Fields(rest)...)
			last = nil
		case word == "guards":
			if fs := strings.Fields(rest); len(fs) >= 2 {
				cur.Guards = append(cur.Guards, fs)
			}
			last = nil
		case word == "rule":
			cur.Rules = append(cur.Rules, strings.Fields(rest)...)
			last = nil
		case word == "requires":
			cur.Clauses = append(cur.Clauses, Clause{Kind: "requires", Expr: rest, Line: n + 1})
			last = &cur.Clauses[len(cur.Clauses)-1]
		case strings.HasPrefix(word, "ensures"):
			label := strings.TrimSuffix(strings.TrimPrefix(strings.TrimPrefix(word, "ensures"), "["), "]")
			cur.Clauses = append(cur.Clauses, Clause{Kind: "ensures", Label: label, Expr: rest, Line: n + 1})
			last = &cur.Clauses[len(cur.Clauses)-1]
			if id, _, ok := strings.Cut(label, ":"); ok && !cur.hasProp(id) {
				cur.Props = append(cur.Props, id)
			}
		case word == "loop":
			var loop int
			parts := strings.SplitN(rest, " ", 3)
			if len(parts) < 3 {
				return nil, fmt.Errorf("%s:%d: malformed loop clause", path, n+1)
			}
			if strings.HasPrefix(parts[0], "y") { // range-over-func loops are numbered separately: y0, y1, ...
				fmt.Sscanf(parts[0][1:], "%d", &loop)
				loop += 1000
			} else {
				fmt.Sscanf(parts[0], "%d", &loop)
			}
			if parts[1] != "invariant" {
				last = nil
				continue // decreases: termination is not verified
			}
			cur.Clauses = append(cur.Clauses, Clause{Kind: "invariant", Loop: loop, Expr: parts[2], Line: n + 1})
			last = &cur.Clauses[len(cur.Clauses)-1]
		default:
			return nil, fmt.Errorf("%s:%d: unknown contract clause %q", path, n+1, word)
		}
	}
	for _, fc := range out {
		k := 0
		var rest []Clause
		for _, c := range fc.Clauses {
			if c.Kind != "effect" {
				rest = append(rest, c)
				continue
			}
			if err := parseEffect(fc.EffectCl[k], c.Expr); err != nil {
				return nil, fmt.Errorf("%s:%d: %v", path, c.Line, err)
			}
			k++
		}
		fc.Clauses = rest
	}
	return out, nil
}

// ---- expression lowering ----

// splitTop splits s at the first top-level occurrence of op (outside parentheses, brackets, braces and strings).
func splitTop(s, op string) (string, string, bool) {
	depth := 0
	inStr := false
	for i := 0; i+len(op) <= len(s); i++ {
		c := s[i]
		if inStr {
			if c == '\\' {
				i++
			} else if c == '"' {
				inStr = false
			}
			continue
		}
		switch c {
		case '"':
			inStr = true
		case '(', '[', '{':
			depth++
		case ')', ']', '}':
			depth--
		}
		if depth == 0 && strings.HasPrefix(s[i:], op) {
			return s[:i], s[i+len(op):], true
		}
	}
	return s, "", false
}

// lowerExpr rewrites the contract dialect (==>, forall, exists) into plain Go.
func lowerExpr(s string) (string, error) {
	s = strings.TrimSpace(s)
	// same(a, b): a and b are one and the same map / pointer / slice (identity, not contents)
	for {
		i := findWord(s, "same(")
		if i < 0 {
			break
		}
		s = s[:i] + "vqSame(" + s[i+5:]
	}
	// quantifiers: forall k :: lo <= k && k < hi ==> P      exists k :: lo <= k && k < hi && P
	for _, q := range []string{"forall", "exists"} {
		if strings.HasPrefix(s, q+" ") {
			head, body, ok := splitTop(s[len(q)+1:], "::")
			if !ok {
				return "", fmt.Errorf("quantifier without `::` in %q", s)
			}
			v := strings.TrimSpace(head)
			body = strings.TrimSpace(body)
			var rng, p string
			if q == "forall" {
				rng, p, ok = splitTop(body, "==>")
				if !ok {
					return "", fmt.Errorf("forall needs `range ==> body` in %q", s)
				}
			} else {
				// range is the first two conjuncts
				a, rest, ok1 := splitTop(body, "&&")
				b, rest2, ok2 := splitTop(rest, "&&")
				if !ok1 || !ok2 {
					return "", fmt.Errorf("exists needs `lo <= k && k < hi && body` in %q", s)
				}
				rng, p = a+"&&"+b, rest2
			}
			loE, hiE, err := quantRange(rng, v)
			if err != nil {
				return "", err
			}
			lp, err := lowerExpr(p)
			if err != nil {
				return "", err
			}
			fn := "vqForall"
			if q == "exists" {
				fn = "vqExists"
			}
			return fmt.Sprintf("%s(int(%s), int(%s), func(%s int) bool { return %s })", fn, loE, hiE, v, lp), nil
		}
	}
	// `==>` binds weakest and a quantifier extends to the end of the expression, so an
	// implication arrow left of the first top-level quantifier splits first: A ==> (B && forall ...).
	qpos := topLevelWord(s, "forall", "exists")
	head := s
	if qpos > 0 {
		head = s[:qpos]
	}
	if a, _, ok := splitTop(head, "==>"); ok && strings.TrimSpace(s[len(a)+3:]) != "" {
		b := s[len(a)+3:]
		la, err := lowerExpr(a)
		if err != nil {
			return "", err
		}
		lb, err := lowerExpr(b)
		if err != nil {
			return "", err
		}
		return "(!(" + la + ") || (" + lb + "))", nil
	}
	if qpos > 0 { // A && (forall ...)   A || (exists ...)   !(exists ...)
		left := strings.TrimSpace(s[:qpos])
		q, err := lowerExpr(s[qpos:])
		if err != nil {
			return "", err
		}
		for _, op := range []string{"&&", "||"} {
			if strings.HasSuffix(left, op) {
				la, err := lowerExpr(strings.TrimSpace(strings.TrimSuffix(left, op)))
				if err != nil {
					return "", err
				}
				return "(" + la + " " + op + " " + q + ")", nil
			}
		}
		if left == "!" {
			return "!(" + q + ")", nil
		}
		return "", fmt.Errorf("quantifier must follow ==>, && or || in %q", s)
	}
	// conjunctions/disjunctions may contain quantifiers or implications in parenthesised operands
	for _, op := range []string{"||", "&&"} {
		if a, b, ok := splitTop(s, op); ok {
			la, err := lowerExpr(a)
			if err != nil {
				return "", err
			}
			lb, err := lowerExpr(b)
			if err != nil {
				return "", err
			}
			return "(" + la + " " + op + " " + lb + ")", nil
		}
	}
	// comparison of a boolean with a parenthesised quantified formula: b == (exists ...)
	if strings.Contains(s, "forall ") || strings.Contains(s, "exists ") || strings.Contains(s, "==>") {
		for _, op := range []string{"==", "!="} {
			if a, b, ok := splitTop(s, op); ok && !strings.HasPrefix(b, ">") {
				la, err := lowerExpr(a)
				if err != nil {
					return "", err
				}
				lb, err := lowerExpr(b)
				if err != nil {
					return "", err
				}
				return "(" + la + " " + op + " " + lb + ")", nil
			}
		}
	}
	if strings.HasPrefix(s, "!") && strings.HasPrefix(strings.TrimSpace(s[1:]), "(") && balancedParen(strings.TrimSpace(s[1:])) {
		inner, err := lowerExpr(strings.TrimSpace(s[1:]))
		return "!" + inner, err
	}
	if strings.HasPrefix(s, "(") && strings.HasSuffix(s, ")") && balancedParen(s) {
		inner, err := lowerExpr(s[1 : len(s)-1])
		return "(" + inner + ")", err
	}
	return s, nil
}

// balancedParen reports whether s is one parenthesised group "( ... )".
func balancedParen(s string) bool {
	if len(s) < 2 || s[0] != '(' {
		return false
	}
	d := 0
	inStr := false
	for i := 0; i < len(s); i++ {
		c := s[i]
		if inStr {
			if c == '\\' {
				i++
			} else if c == '"' {
				inStr = false
			}
			continue
		}
		switch c {
		case '"':
			inStr = true
		case '(', '[', '{':
			d++
		case ')', ']', '}':
			d--
			if d == 0 && i != len(s)-1 {
				return false
			}
		}
	}
	return d == 0
}

// topLevelWord returns the position of the first top-level occurrence of one of the words, or -1.
func topLevelWord(s string, words ...string) int {
	depth := 0
	inStr := false
	for i := 0; i < len(s); i++ {
		c := s[i]
		if inStr {
			if c == '\\' {
				i++
			} else if c == '"' {
				inStr = false
			}
			continue
		}
		switch c {
		case '"':
			inStr = true
		case '(', '[', '{':
			depth++
		case ')', ']', '}':
			depth--
		}
		if depth != 0 {
			continue
		}
		for _, w := range words {
			if strings.HasPrefix(s[i:], w+" ") && (i == 0 || s[i-1] == ' ' || s[i-1] == '(' || s[i-1] == '!') {
				return i
			}
		}
	}
	return -1
}

func quantRange(rng, v string) (string, string, error) {
	a, b, ok := splitTop(rng, "&&")
	if !ok {
		return "", "", fmt.Errorf("quantifier range must be `lo <= %s && %s < hi`, got %q", v, v, rng)
	}
	lo, v1, ok1 := splitTop(a, "<=")
	v2, hi, ok2 := splitTop(b, "<")
	if !ok1 || !ok2 || strings.TrimSpace(v1) != v || strings.TrimSpace(v2) != v {
		return "", "", fmt.Errorf("quantifier range must be `lo <= %s && %s < hi`, got %q", v, v, rng)
	}
	return strings.TrimSpace(lo), strings.TrimSpace(hi), nil
}

// extractOlds replaces every old(e) in s by gocvold_<n> and returns the list of e.
func extractOlds(s string) (string, []string) {
	var olds []string
	for {
		i := findWord(s, "old(")
		if i < 0 {
			return s, olds
		}
		depth := 0
		j := i + 3
		for ; j < len(s); j++ {
			if s[j] == '(' {
				depth++
			} else if s[j] == ')' {
				depth--
				if depth == 0 {
					break
				}
			}
		}
		if j >= len(s) {
			return s, olds
		}
		olds = append(olds, s[i+4:j])
		s = s[:i] + fmt.Sprintf("gocvold_%d", len(olds)-1) + s[j+1:]
	}
}

func findWord(s, w string) int {
	for i := 0; ; {
		j := strings.Index(s[i:], w)
		if j < 0 {
			return -1
		}
		j += i
		if j == 0 || !(s[j-1] == '_' || s[j-1] >= 'a' && s[j-1] <= 'z' || s[j-1] >= 'A' && s[j-1] <= 'Z' || s[j-1] >= '0' && s[j-1] <= '9' || s[j-1] == '.') {
			return j
		}
		i = j + 1
	}
}

// ---- generation ----

type genInfo struct {
	pkg     *packages.Package
	imports map[string]string // path -> name, needed by the generated file
}

func (g *genInfo) qualifier(p *types.Package) string {
	if p == g.pkg.Types {
		return ""
	}
	g.imports[p.Path()] = p.Name()
	return p.Name()
}

// findFunc locates the declaration (or function literal) a contract names.
// name: f | (*T).m | (T).m, optionally followed by $n[$m...] for anonymous functions.
func findFunc(pkg *packages.Package, name string) (decl *ast.FuncDecl, lit *ast.FuncLit, sig *types.Signature) {
	base, anon, _ := strings.Cut(name, "$")
	recv := ""
	fname := base
	if strings.HasPrefix(base, "(") {
		r, m, _ := strings.Cut(base[1:], ").")
		recv, fname = strings.TrimPrefix(r, "*"), m
	}
	for _, f := range pkg.Syntax {
		for _, d := range f.Decls {
			fd, ok := d.(*ast.FuncDecl)
			if !ok || fd.Name.Name != fname || fd.Body == nil {
				continue
			}
			match := false
			if recv == "" && fd.Recv == nil {
				match = true
			}
			if recv != "" && fd.Recv != nil {
				t := fd.Recv.List[0].Type
				if s, ok := t.(*ast.StarExpr); ok {
					t = s.X
				}
				if ix, ok := t.(*ast.IndexExpr); ok {
					t = ix.X
				}
				if id, ok := t.(*ast.Ident); ok && id.Name == recv {
					match = true
				}
			}
			if !match {
				continue
			}
			decl = fd
			sig = pkg.TypesInfo.Defs[fd.Name].(*types.Func).Type().(*types.Signature)
			if anon == "" {
				return
			}
			var node ast.Node = fd.Body
			for _, ord := range strings.Split(anon, "$") {
				var n int
				fmt.Sscanf(ord, "%d", &n)
				lit = nthFuncLit(node, n)
				if lit == nil {
					return nil, nil, nil
				}
				node = lit.Body
			}
			sig = pkg.TypesInfo.TypeOf(lit).(*types.Signature)
			return
		}
	}
	return nil, nil, nil
}

// nthFuncLit returns the n-th (1-based) function literal directly inside node (not nested in another literal).
// go/ssa numbers anonymous functions in source order; range-over-func bodies are also numbered, which
// callers must account for in the ordinal they write.
func nthFuncLit(node ast.Node, n int) *ast.FuncLit {
	count := 0
	var found *ast.FuncLit
	ast.Inspect(node, func(x ast.Node) bool {
		if found != nil {
			return false
		}
		switch l := x.(type) {
		case *ast.FuncLit:
			count++
			if count == n {
				found = l
			}
			return false
		case *ast.RangeStmt:
			// a range over a function value compiles to a synthetic closure that takes a number
			_ = l
		}
		return true
	})
	return found
}

// varTypes collects the variables declared inside node by name (first declaration wins).
func varTypes(pkg *packages.Package, node ast.Node) map[string]types.Type {
	out := map[string]types.Type{}
	ast.Inspect(node, func(n ast.Node) bool {
		if id, ok := n.(*ast.Ident); ok {
			if obj, ok := pkg.TypesInfo.Defs[id].(*types.Var); ok && obj != nil {
				if _, dup := out[id.Name]; !dup {
					out[id.Name] = obj.Type()
				}
			}
		}
		return true
	})
	return out
}

func safeName(s string) string {
	return strings.Map(func(r rune) rune {
		if r >= 'a' && r <= 'z' || r >= 'A' && r <= 'Z' || r >= '0' && r <= '9' || r == '_' {
			return r
		}
		return '_'
	}, s)
}

// rangeKeys lists the key variables of range statements over slices in node (their value at the loop head is the iteration count).
// rangedType gives the type of the expression the ord-th loop of body (source order, closures excluded) ranges over;
// nil when that loop is not a range over a slice.
func rangedType(pkg *packages.Package, body ast.Node, ord int) types.Type {
	if body == nil {
		return nil
	}
	n := 0
	var out types.Type
	ast.Inspect(body, func(x ast.Node) bool {
		switch l := x.(type) {
		case *ast.FuncLit:
			return false
		case *ast.ForStmt:
			n++
		case *ast.RangeStmt:
			if n == ord {
				if t := pkg.TypesInfo.TypeOf(l.X); t != nil {
					if _, ok := t.Underlying().(*types.Slice); ok {
						out = t
					}
				}
			}
			n++
		}
		return true
	})
	return out
}

func rangeKeys(node ast.Node) map[string]bool {
	out := map[string]bool{}
	ast.Inspect(node, func(n ast.Node) bool {
		if rs, ok := n.(*ast.RangeStmt); ok {
			if id, ok := rs.Key.(*ast.Ident); ok && id.Name != "_" {
				out[id.Name] = true
			}
		}
		return true
	})
	return out
}

type lowerCtx struct {
	g       *genInfo
	pkg     *packages.Package
	fc      *FuncContract
	sig     *types.Signature
	vars    map[string]types.Type // every variable visible by name: params, receiver, results, locals, captured
	results map[string]bool
	rkeys   map[string]bool
	isParam map[string]bool
}

// usedNames lists the free identifiers of a lowered expression that denote variables of the function.
func (lc *lowerCtx) usedNames(ex ast.Expr) []string {
	used := map[string]bool{}
	bound := map[string]bool{}
	var visit func(n ast.Node) bool
	visit = func(n ast.Node) bool {
		switch x := n.(type) {
		case *ast.FuncLit:
			for _, f := range x.Type.Params.List {
				for _, nm := range f.Names {
					bound[nm.Name] = true
				}
			}
		case *ast.SelectorExpr:
			ast.Inspect(x.X, visit)
			return false
		case *ast.KeyValueExpr:
			ast.Inspect(x.Value, visit)
			return false
		case *ast.Ident:
			used[x.Name] = true
		}
		return true
	}
	ast.Inspect(ex, visit)
	var names []string
	for n := range used {
		if bound[n] {
			continue
		}
		if _, ok := lc.vars[n]; ok || strings.HasPrefix(n, "gocvold_") || strings.HasPrefix(n, "gocvcall_") {
			names = append(names, n)
		}
	}
	sort.Strings(names)
	return names
}

func (lc *lowerCtx) paramList(names []string, kind string, oldTypes map[string]string) (string, error) {
	var ps []string
	for _, n := range names {
		if t, ok := oldTypes[n]; ok {
			ps = append(ps, n+" "+t)
			continue
		}
		t := lc.vars[n]
		if lc.results[n] && kind != "ensures" {
			return "", fmt.Errorf("result %s used outside an ensures clause", n)
		}
		if kind == "invariant" && lc.rkeys[n] && !lc.isParam[n] {
			ps = append(ps, fmt.Sprintf("gocvcount_%s int", n))
			continue
		}
		ps = append(ps, fmt.Sprintf("%s %s", n, types.TypeString(t, lc.g.qualifier)))
	}
	return strings.Join(ps, ", "), nil
}

// generateOverlay lowers every contract of the package into Go source.
func generateOverlay(pkg *packages.Package, contracts []*FuncContract, regions []Finding) (string, error) {
	g := &genInfo{pkg: pkg, imports: map[string]string{}}
	var body strings.Builder
	seenBase := map[string]int{}
	for ci, fc := range contracts {
		// several contract blocks may name one function (a template instance plus a specific block)
		seenBase[safeName(fc.Func)]++
		if n := seenBase[safeName(fc.Func)]; n > 1 {
			fc.uniq = fmt.Sprintf("_c%d", n)
		}
		if fc.Broken != "" {
			continue
		}
		fmt.Fprintf(&body, "// gocv:contract %d\n", ci)
		fd, lit, sig := findFunc(pkg, fc.Func)
		if fd == nil && fc.sig == nil {
			// the function is gone (renamed, a function literal removed by a refactoring): this contract decides
			// nothing about this tree (reported as UNDECIDED "function not found" when it is run); the others do
			continue
		}
		if fd == nil {
			sig = fc.sig // method of a template whose declaration lives elsewhere (promoted through an embedded field)
		}
		lc := &lowerCtx{g: g, pkg: pkg, fc: fc, sig: sig, vars: map[string]types.Type{}, results: map[string]bool{}, isParam: map[string]bool{}, rkeys: map[string]bool{}}
		// locals first (of the whole declaration, so that closures see captured variables), then parameters override
		if fd != nil {
			for n, t := range varTypes(pkg, fd) {
				lc.vars[n] = t
			}
			var scopeNode ast.Node = fd.Body
			if lit != nil {
				scopeNode = lit.Body
				for n, t := range varTypes(pkg, lit) {
					lc.vars[n] = t
				}
			}
			lc.rkeys = rangeKeys(scopeNode)
		}
		// iter__ names the number of completed iterations of the loop an invariant belongs to (range loops without a key variable)
		lc.rkeys["iter__"] = true
		lc.vars["iter__"] = types.Typ[types.Int]
		if sig.Recv() != nil && sig.Recv().Name() != "" {
			lc.vars[sig.Recv().Name()] = sig.Recv().Type()
			lc.isParam[sig.Recv().Name()] = true
		}
		if fc.RecvName != "" && sig.Recv() != nil {
			// template: the receiver is called by the template's name in every expanded method
			rt := sig.Recv().Type()
			if tn := strings.TrimPrefix(fc.Func[1:strings.Index(fc.Func, ")")], "*"); tn != "" {
				if obj := pkg.Types.Scope().Lookup(tn); obj != nil {
					rt = obj.Type()
					if strings.HasPrefix(fc.Func, "(*") {
						rt = types.NewPointer(rt)
					}
				}
			}
			lc.vars[fc.RecvName] = rt
			lc.isParam[fc.RecvName] = true
		}
		if fd != nil && fd.Recv != nil && lit != nil {
			// the receiver of the enclosing method is a captured variable of the closure
			osig := pkg.TypesInfo.Defs[fd.Name].(*types.Func).Type().(*types.Signature)
			if osig.Recv().Name() != "" {
				lc.vars[osig.Recv().Name()] = osig.Recv().Type()
			}
		}
		for i := 0; i < sig.Params().Len(); i++ {
			p := sig.Params().At(i)
			if p.Name() != "" && p.Name() != "_" {
				lc.vars[p.Name()] = p.Type()
				lc.isParam[p.Name()] = true
			}
		}
		for i := 0; i < sig.Results().Len(); i++ {
			r := sig.Results().At(i)
			name := r.Name()
			if name == "" || name == "_" {
				switch {
				case isError(r.Type()):
					name = "err"
				case i == 0:
					name = "result"
				default:
					name = fmt.Sprintf("result%d", i)
				}
			}
			lc.vars[name] = r.Type()
			lc.results[name] = true
		}
		base := fc.base()
		nens, ninv := 0, map[int]int{}
		var reqs []string
		reqNames := map[string]bool{}
		clauses := append([]Clause{}, fc.Clauses...)
		for _, r := range regions {
			if r.Func == fc.Func && r.Region != "" {
				clauses = append(clauses, Clause{Kind: "region", Label: r.ID, Expr: r.Region})
			}
		}
		for _, c := range clauses {
			expr, olds := c.Expr, []string(nil)
			var callExprs []string
			var callIdx []int
			// range__ names the slice a range loop iterates over (evaluated once, before the loop)
			delete(lc.vars, "range__")
			if c.Kind == "invariant" {
				var body ast.Node
				if lit != nil {
					body = lit.Body
				} else if fd != nil {
					body = fd.Body
				}
				if t := rangedType(pkg, body, c.Loop); t != nil {
					lc.vars["range__"] = t
				}
			}
			if c.Kind == "ensures" {
				expr, olds = extractOlds(expr)
				expr, callExprs, callIdx = extractCallRefs(expr)
			}
			low, err := lowerExpr(expr)
			if err != nil {
				return "", fmt.Errorf("%s:%d: %s: %v", fc.File, c.Line, fc.Func, err)
			}
			ex, err := parser.ParseExpr(low)
			if err != nil {
				return "", fmt.Errorf("%s:%d: %s: %v in %q", fc.File, c.Line, fc.Func, err, low)
			}
			names := lc.usedNames(ex)
			switch c.Kind {
			case "requires":
				reqs = append(reqs, low)
				for _, n := range names {
					reqNames[n] = true
				}
			case "region":
				ps, err := lc.paramList(names, "requires", nil)
				if err != nil {
					return "", fmt.Errorf("finding %s: %v", c.Label, err)
				}
				fn := fmt.Sprintf("verif_region_%s_%s", safeName(c.Label), base)
				fmt.Fprintf(&body, "func %s(%s) bool {\n\treturn %s\n}\n\n", fn, ps, low)
				fc.regions[c.Label] = fn
			case "ensures":
				nens++
				label := safeName(c.Label)
				if label == "" {
					label = fmt.Sprintf("e%d", nens)
				}
				pf := postFn{name: fmt.Sprintf("verif_post_%s_%s", label, base), label: c.Label}
				oldTypes := map[string]string{}
				for i, oe := range olds {
					oex, err := parser.ParseExpr(oe)
					if err != nil {
						return "", fmt.Errorf("%s:%d: old(%s): %v", fc.File, c.Line, oe, err)
					}
					onames := lc.usedNames(oex)
					ops, err := lc.paramList(onames, "requires", nil)
					if err != nil {
						return "", fmt.Errorf("%s:%d: old(%s): %v", fc.File, c.Line, oe, err)
					}
					ot, err := lc.exprType(oex, fd, lit)
					if err != nil {
						return "", fmt.Errorf("%s:%d: old(%s): %v", fc.File, c.Line, oe, err)
					}
					ofn := fmt.Sprintf("verif_old_%s_%d_%s", label, i, base)
					fmt.Fprintf(&body, "func %s(%s) %s {\n\treturn %s\n}\n\n", ofn, ops, ot, oe)
					pf.olds = append(pf.olds, ofn)
					oldTypes[fmt.Sprintf("gocvold_%d", i)] = ot
				}
				for i, ce := range callExprs {
					cex, err := parser.ParseExpr(ce)
					if err != nil {
						return "", fmt.Errorf("%s:%d: result_of(%s): %v", fc.File, c.Line, ce, err)
					}
					lastCall := callIdx[i] >= lastCallBias
					if lastCall {
						callIdx[i] -= lastCallBias
					}
					full, rt, err := lc.calleeInfo(cex, fd, lit, callIdx[i])
					if err != nil {
						return "", fmt.Errorf("%s:%d: result_of(%s): %v", fc.File, c.Line, ce, err)
					}
					cr := callRef{callee: full, idx: callIdx[i], last: lastCall}
					if full == "<dynamic>" {
						cr.dynFn = fmt.Sprintf("verif_callref_%s_%d_%s", label, i, base)
						dn := lc.usedNames(cex)
						dps, err := lc.paramList(dn, "requires", nil)
						if err != nil {
							return "", fmt.Errorf("%s:%d: %v", fc.File, c.Line, err)
						}
						fmt.Fprintf(&body, "func %s(%s) any {\n\treturn %s\n}\n\n", cr.dynFn, dps, ce)
					}
					pf.calls = append(pf.calls, cr)
					oldTypes[fmt.Sprintf("gocvcall_%d", i)] = rt
				}
				// gocvcall_ names are parameters of the lowered function as well
				for i := range callExprs {
					n := fmt.Sprintf("gocvcall_%d", i)
					found := false
					for _, x := range names {
						if x == n {
							found = true
						}
					}
					if !found {
						names = append(names, n)
					}
				}
				ps, err := lc.paramList(names, "ensures", oldTypes)
				if err != nil {
					return "", fmt.Errorf("%s:%d: %v", fc.File, c.Line, err)
				}
				fmt.Fprintf(&body, "func %s(%s) bool {\n\treturn %s\n}\n\n", pf.name, ps, low)
				fc.posts = append(fc.posts, pf)
			case "invariant":
				ps, err := lc.paramList(names, "invariant", nil)
				if err != nil {
					return "", fmt.Errorf("%s:%d: %v", fc.File, c.Line, err)
				}
				fn := fmt.Sprintf("verif_inv%d_%d_%s", c.Loop, ninv[c.Loop], base)
				// the iteration count of a range loop replaces the key variable
				lowInv := low
				for _, n := range names {
					if lc.rkeys[n] && !lc.isParam[n] {
						lowInv = replaceIdent(lowInv, n, "gocvcount_"+n)
					}
				}
				fmt.Fprintf(&body, "func %s(%s) bool {\n\treturn %s\n}\n\n", fn, ps, lowInv)
				fc.invs[c.Loop] = append(fc.invs[c.Loop], fn)
				ninv[c.Loop]++
			}
		}
		if len(reqs) > 0 {
			var names []string
			for n := range reqNames {
				names = append(names, n)
			}
			sort.Strings(names)
			ps, err := lc.paramList(names, "requires", nil)
			if err != nil {
				return "", fmt.Errorf("%s: %v", fc.Func, err)
			}
			fmt.Fprintf(&body, "func verif_pre_%s(%s) bool {\n\treturn (%s)\n}\n\n", base, ps, strings.Join(reqs, ") && ("))
			fc.hasPre = true
		}
		if len(fc.EffectCl) > 0 {
			// expressions of effect patterns are type-checked in the scope of the function (or, for template
			// methods without a local declaration, in a synthetic scope holding only the receiver)
			checkPos := func(ex ast.Expr) (types.Type, *types.Info, error) {
				info := &types.Info{Types: map[ast.Expr]types.TypeAndValue{}, Uses: map[*ast.Ident]types.Object{}, Selections: map[*ast.SelectorExpr]*types.Selection{}}
				if fd != nil && fc.RecvName == "" {
					pos := fd.Body.Rbrace
					if lit != nil {
						pos = lit.Body.Rbrace
					}
					if err := types.CheckExpr(pkg.Fset, pkg.Types, pos, ex, info); err != nil {
						return nil, nil, err
					}
					return info.Types[ex].Type, info, nil
				}
				// synthetic package scope with the receiver variable
				scope := types.NewScope(pkg.Types.Scope(), 0, 0, "effect")
				_ = scope
				tp := types.NewPackage(pkg.Types.Path(), pkg.Types.Name())
				for _, n := range pkg.Types.Scope().Names() {
					tp.Scope().Insert(pkg.Types.Scope().Lookup(n))
				}
				for _, f := range pkg.Syntax {
					for _, im := range f.Imports {
						if pn, ok := pkg.TypesInfo.Implicits[im].(*types.PkgName); ok && tp.Scope().Lookup(pn.Name()) == nil {
							tp.Scope().Insert(types.NewPkgName(0, tp, pn.Name(), pn.Imported()))
						} else if im.Name != nil {
							if pn, ok := pkg.TypesInfo.Defs[im.Name].(*types.PkgName); ok && tp.Scope().Lookup(pn.Name()) == nil {
								tp.Scope().Insert(types.NewPkgName(0, tp, pn.Name(), pn.Imported()))
							}
						}
					}
				}
				if rn := fc.RecvName; rn != "" {
					tp.Scope().Insert(types.NewVar(0, tp, rn, lc.vars[rn]))
				} else if sig.Recv() != nil {
					tp.Scope().Insert(types.NewVar(0, tp, sig.Recv().Name(), sig.Recv().Type()))
				}
				if err := types.CheckExpr(pkg.Fset, tp, 0, ex, info); err != nil {
					return nil, nil, err
				}
				return info.Types[ex].Type, info, nil
			}
			if err := lc.lowerEffects(fc, &body, checkPos); err != nil {
				return "", fmt.Errorf("%s:%d: %s: %v", fc.File, fc.Line, fc.Func, err)
			}
		}
	}
	var sb strings.Builder
	fmt.Fprintf(&sb, "//go:build verif\n\n// Code generated by gocv from the //@ contracts of this package. DO NOT EDIT.\n\npackage %s\n\n", pkg.Name)
	// packages named directly in contract expressions (io.EOF, strings.Contains ...) : imported under the name the
	// package's own files use
	bodyText := body.String()
	var aliasRewrites [][2]string
	for _, f := range pkg.Syntax {
		for _, im := range f.Imports {
			path := strings.Trim(im.Path.Value, "\"")
			name := ""
			if im.Name != nil {
				name = im.Name.Name
			} else if ip := pkg.Imports[path]; ip != nil {
				name = ip.Name
			}
			if name == "" || name == "_" || name == "." {
				continue
			}
			if real, have := g.imports[path]; have {
				// already imported under the package's own name (types of it occur in signatures): occurrences of
				// the file's alias in contract expressions are rewritten to that name
				if real != name {
					aliasRewrites = append(aliasRewrites, [2]string{name, real})
				}
				continue
			}
			used := false
			for i := 0; ; {
				j := strings.Index(bodyText[i:], name+".")
				if j < 0 {
					break
				}
				j += i
				if j == 0 || !(bodyText[j-1] == '_' || bodyText[j-1] == '.' || bodyText[j-1] >= 'a' && bodyText[j-1] <= 'z' || bodyText[j-1] >= 'A' && bodyText[j-1] <= 'Z' || bodyText[j-1] >= '0' && bodyText[j-1] <= '9') {
					used = true
					break
				}
				i = j + 1
			}
			if used && (strings.Contains(bodyText, "("+name+" ") || strings.Contains(bodyText, ", "+name+" ")) {
				used = false // a parameter of that name: the occurrences are field selections on the variable
			}
			if used {
				clash := false
				for _, n := range g.imports {
					if n == name {
						clash = true
					}
				}
				if !clash {
					g.imports[path] = name
				}
			}
		}
	}
	// standard packages a contract expression may use although no file of the package imports them
	for _, std := range []string{"strings", "strconv", "errors", "io", "time", "bytes", "slices", "sort", "math", "fmt"} {
		have := false
		for _, n := range g.imports {
			if n == std {
				have = true
			}
		}
		if !have && regexp.MustCompile(`(^|[^A-Za-z0-9_.])`+std+`\.[A-Z]`).MatchString(bodyText) && !strings.Contains(bodyText, "("+std+" ") && !strings.Contains(bodyText, ", "+std+" ") {
			g.imports[std] = std
		}
	}
	// an import that only a dropped capture type needed would be unused
	for path, name := range g.imports {
		if !regexp.MustCompile(`(^|[^A-Za-z0-9_.])` + regexp.QuoteMeta(name) + `\.`).MatchString(bodyText) {
			aliased := false
			for _, rw := range aliasRewrites {
				if rw[1] == name && regexp.MustCompile(`(^|[^A-Za-z0-9_.])`+regexp.QuoteMeta(rw[0])+`\.`).MatchString(bodyText) {
					aliased = true
				}
			}
			if !aliased {
				delete(g.imports, path)
			}
		}
	}
	needSame := strings.Contains(body.String(), "vqSame(") && pkg.Types.Scope().Lookup("vqSame") == nil
	if needSame {
		g.imports["fmt"] = "fmt"
	}
	var paths []string
	for p := range g.imports {
		paths = append(paths, p)
	}
	sort.Strings(paths)
	if len(paths) > 0 {
		sb.WriteString("import (\n")
		for _, p := range paths {
			fmt.Fprintf(&sb, "\t%s %q\n", g.imports[p], p)
		}
		sb.WriteString(")\n\n")
	}
	if pkg.Types.Scope().Lookup("vqForall") == nil {
		sb.WriteString("func vqForall(lo int, hi int, f func(int) bool) bool {\n\tfor i := lo; i < hi; i++ {\n\t\tif !f(i) {\n\t\t\treturn false\n\t\t}\n\t}\n\treturn true\n}\n\n")
		sb.WriteString("func vqExists(lo int, hi int, f func(int) bool) bool {\n\tfor i := lo; i < hi; i++ {\n\t\tif f(i) {\n\t\t\treturn true\n\t\t}\n\t}\n\treturn false\n}\n\n")
	}
	if needSame {
		// executable meaning (replays, bounded search): identical, or equal contents -- old(...) values are deep copies
		// in a replay, so identity alone would report differences that are not there; the weaker test can only make a
		// replay confirm less
		sb.WriteString("func vqSame[T any](a, b T) bool {\n\treturn fmt.Sprintf(\"%p\", any(a)) == fmt.Sprintf(\"%p\", any(b)) || fmt.Sprint(any(a)) == fmt.Sprint(any(b))\n}\n\n")
	}
	finalBody := body.String()
	for _, rw := range aliasRewrites {
		finalBody = regexp.MustCompile(`(^|[^A-Za-z0-9_.])`+regexp.QuoteMeta(rw[0])+`\.`).ReplaceAllString(finalBody, "${1}"+rw[1]+".")
	}
	sb.WriteString(finalBody)
	return sb.String(), nil
}

// replaceIdent replaces whole-identifier occurrences of name that are not selector fields.
func replaceIdent(s, name, by string) string {
	var sb strings.Builder
	for i := 0; i < len(s); {
		j := strings.Index(s[i:], name)
		if j < 0 {
			sb.WriteString(s[i:])
			break
		}
		j += i
		end := j + len(name)
		isId := func(c byte) bool {
			return c == '_' || c >= 'a' && c <= 'z' || c >= 'A' && c <= 'Z' || c >= '0' && c <= '9'
		}
		sb.WriteString(s[i:j])
		if (j == 0 || !isId(s[j-1]) && s[j-1] != '.') && (end == len(s) || !isId(s[end])) {
			sb.WriteString(by)
		} else {
			sb.WriteString(name)
		}
		i = end
	}
	return sb.String()
}

// exprType type-checks a plain Go expression in the scope of the function.
func (lc *lowerCtx) exprType(ex ast.Expr, fd *ast.FuncDecl, lit *ast.FuncLit) (string, error) {
	pos := fd.Body.Rbrace
	if lit != nil {
		pos = lit.Body.Rbrace
	}
	info := &types.Info{Types: map[ast.Expr]types.TypeAndValue{}}
	if err := types.CheckExpr(lc.pkg.Fset, lc.pkg.Types, pos, ex, info); err != nil {
		return "", err
	}
	t := info.Types[ex].Type
	if b, ok := t.(*types.Basic); ok && b.Info()&types.IsUntyped != 0 {
		t = types.Default(t)
	}
	return types.TypeString(t, lc.g.qualifier), nil
}

// loadTypes is phase one: types and syntax of the packages (with dependencies), with overlays.
func loadTypes(patterns []string, ov map[string][]byte) ([]*packages.Package, error) {
	cfg := &packages.Config{Mode: packages.NeedName | packages.NeedFiles | packages.NeedSyntax | packages.NeedTypes | packages.NeedTypesInfo | packages.NeedImports | packages.NeedDeps,
		Dir: repoDir, BuildFlags: []string{"-tags=verif"}, Overlay: ov, Fset: token.NewFileSet()}
	pkgs, err := packages.Load(cfg, patterns...)
	if err != nil {
		return nil, err
	}
	if n := packages.PrintErrors(pkgs); n > 0 {
		return nil, fmt.Errorf("%d type errors loading %v", n, patterns)
	}
	return pkgs, nil
}

func pkgDir(pkg *packages.Package) string { return filepath.Dir(pkg.GoFiles[0]) }
