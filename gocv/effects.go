package main

// Effect clauses: obligations over the call trace of a function (typestate, ordering, method-set templates).
//
//	//@ effect[Label] every <pattern> [needs before|after <pattern>] [where <Go bool expr>]
//
// pattern:  recvExpr.Method(args) [-> (results)]      call of an interface method on the value of recvExpr
//	         _.Method(args)                              ... on any receiver
//	         recvExpr.$M(args)                           ... any method ($M is bound to the method name, a string)
//	         f(args) | pkg.F(args) | x.method(args)      static call of a function or concrete method (receiver is not matched)
//	args:    _ (anything)   __ (all remaining arguments)   $x (captured)   T($x) (captured, matches only arguments of type T)
//
// Semantics: for every event E of the function's trace that matches the `every` pattern, under E's reachability
// condition: the `where` condition holds; with `needs before|after P`, some event F matching P exists before|after E
// for which the `where` condition (which may mention captures of both patterns) holds.

import (
	"fmt"
	"go/ast"
	"go/parser"
	"strconv"
	"go/token"
	"go/types"
	"regexp"
	"sort"
	"strings"

	"golang.org/x/tools/go/packages"
	"golang.org/x/tools/go/ssa"
)

type EffectRule struct{ Prop string } // kept for the driver's rule hook (unused)

// replayEffect: effect obligations are not replayed from the model (the inputs are interface values); a hand-written
// driver under /verif/replay/drivers may stand in (see replayObligation).
func replayEffect(ctx *Context, r *OblResult, outDir string) (bool, string) {
	return false, "effect obligation: no generic replay of interface-typed inputs"
}

func parseRules(path string, overlay []byte) ([]*EffectRule, error) { return nil, nil }
func (c *Context) runRule(r *EffectRule) []*FuncResult                { return nil }

// canonType prints a type with aliases resolved and packages by full path, so that types of two separate loads compare.
func canonType(t types.Type) string {
	return types.TypeString(types.Unalias(t), func(p *types.Package) string { return p.Path() })
}

type capture struct {
	canon string // canonical (alias-free, full package path) type of a typed capture
	name  string // without the cap_ prefix
	typ   string // Go type as source text ("" = from the signature)
	pos   int    // argument position; for results: result index
	isRes bool
}

type callPattern struct {
	src      string
	recvSrc  string // "" for static calls, "_" for any receiver
	method   string // "" when the method is a variable
	methVar  string // capture name of the method variable
	static   string // full name of the static callee
	nargs    int    // number of argument patterns before `__` (or all)
	rest     bool   // `__` present
	caps     []capture
	recvFunc string // lowered function returning the receiver value
	iface    *types.Interface
	dynamic  bool // call of a function value (field or variable of func type)
	returns      bool // `returns()`: pseudo-event recorded at every return statement of the function under contract
	loopOrd      int  // `loop_continues(N)`: only the N-th loop of the function (source order, from 0); -1: any loop
	loopContinue bool // `loop_continues()`: pseudo-event recorded at every back edge of the function under contract
	passing  bool // `call passing T($x)`: any call (static, interface or dynamic) with an argument of static type T
	elemOf   bool // each(X)(args): call of a function value that is an element of the slice X
	recvCap     string // capture name of the receiver (T($r).M(...))
	recvCapType string
	recvCapSuffix string
	recvIfaceName string // static interface type of the receiver expression (full path)
}

type EffectClause struct {
	Label    string
	Line     int
	Every    *callPattern
	NeedsDir string // "" | before | after
	Forbid   bool   // the Needs pattern must NOT occur
	Needs    *callPattern
	MoreNeeds []*callPattern // further `needs` patterns (conjunction)
	MoreDirs  []string
	Where    string
	whereFn  string
	If       string // filter on the `every` event: only events for which it holds are obliged
	ifFn     string
	oldFns   []string
	Never    bool // `never P [if C]`: no event matching P (for which C holds) may occur; matching nothing is the expected state
	History  bool // `history every P where C`: C is assumed when an event matching P is recorded (see hist.go)
}

type MethodSelector struct {
	// funcs having <param> <type>: every function, method and function literal of the package with such a parameter
	Funcs      bool
	HavingName string
	HavingType string
	RecvName string
	TypeName string // *T or T
	Of       string // pkg.Interface (source text) or ""
	Match    *regexp.Regexp
	In       map[string]bool
	Except   map[string]bool
}

func parseSelector(rest string) (*MethodSelector, error) {
	fs := strings.Fields(rest)
	if len(fs) >= 3 && fs[0] == "having" {
		// funcs having <param> <type> [matching re] [in ...] [except ...]
		sel := &MethodSelector{Funcs: true, HavingName: fs[1], HavingType: fs[2]}
		if err := parseSelectorOpts(sel, fs, 3); err != nil {
			return nil, err
		}
		return sel, nil
	}
	if len(fs) < 2 {
		return nil, fmt.Errorf("methods: need <recvName> <*Type>")
	}
	sel := &MethodSelector{RecvName: fs[0], TypeName: fs[1]}
	if err := parseSelectorOpts(sel, fs, 2); err != nil {
		return nil, err
	}
	return sel, nil
}

func parseSelectorOpts(sel *MethodSelector, fs []string, from int) error {
	for i := from; i < len(fs); i++ {
		switch fs[i] {
		case "of":
			i++
			if i < len(fs) {
				sel.Of = fs[i]
			}
		case "matching":
			i++
			if i < len(fs) {
				re, err := regexp.Compile(fs[i])
				if err != nil {
					return err
				}
				sel.Match = re
			}
		case "in", "except":
			m := map[string]bool{}
			kind := fs[i]
			for i+1 < len(fs) && fs[i+1] != "of" && fs[i+1] != "matching" && fs[i+1] != "in" && fs[i+1] != "except" {
				i++
				m[fs[i]] = true
			}
			if kind == "in" {
				sel.In = m
			} else {
				sel.Except = m
			}
		default:
			return fmt.Errorf("methods: unexpected %q", fs[i])
		}
	}
	return nil
}

func parseEffect(ec *EffectClause, text string) error {
	text = strings.TrimSpace(text)
	if strings.HasPrefix(text, "never ") {
		// never P [if C]  ==  every P [if C] where false, without the vacuity requirement
		ec.Never = true
		text = "every " + strings.TrimSpace(text[6:]) + " where false"
	}
	if !strings.HasPrefix(text, "every ") {
		return fmt.Errorf("effect clause must start with `every` or `never`")
	}
	text = strings.TrimSpace(text[6:])
	if i := strings.Index(text, " where "); i >= 0 {
		ec.Where = strings.TrimSpace(text[i+7:])
		text = strings.TrimSpace(text[:i])
	}
	// every P if C ...: only events for which C (over P's captures) holds are considered
	if i := strings.Index(text, " if "); i >= 0 {
		rest := text[i+4:]
		end := len(rest)
		for _, kw := range []string{" needs ", " forbids "} {
			if j := strings.Index(rest, kw); j >= 0 && j < end {
				end = j
			}
		}
		ec.If = strings.ReplaceAll(strings.TrimSpace(rest[:end]), "$", "cap_")
		text = strings.TrimSpace(text[:i]) + rest[end:]
	}
	if i := strings.Index(text, " forbids "); i >= 0 {
		// every P forbids before|after Q [where C]: no event matching Q (for which C holds) exists before|after E
		n := strings.TrimSpace(text[i+9:])
		text = strings.TrimSpace(text[:i])
		dir, pat, ok := strings.Cut(n, " ")
		if !ok || (dir != "before" && dir != "after") {
			return fmt.Errorf("forbids must be followed by before|after and a pattern")
		}
		ec.NeedsDir = dir
		ec.Forbid = true
		p, err := parsePattern(pat)
		if err != nil {
			return err
		}
		ec.Needs = p
	} else if i := strings.Index(text, " needs "); i >= 0 {
		// several `needs` may follow each other: all the named events must exist (one `where` speaks about all captures)
		parts := strings.Split(text[i+7:], " needs ")
		text = strings.TrimSpace(text[:i])
		for k, n := range parts {
			n = strings.TrimSpace(n)
			dir, pat, ok := strings.Cut(n, " ")
			if !ok || (dir != "before" && dir != "after") {
				return fmt.Errorf("needs must be followed by before|after and a pattern")
			}
			p, err := parsePattern(pat)
			if err != nil {
				return err
			}
			if k == 0 {
				ec.NeedsDir = dir
				ec.Needs = p
			} else {
				ec.MoreNeeds = append(ec.MoreNeeds, p)
				ec.MoreDirs = append(ec.MoreDirs, dir)
			}
		}
	}
	p, err := parsePattern(text)
	if err != nil {
		return err
	}
	ec.Every = p
	ec.Where = strings.ReplaceAll(ec.Where, "$", "cap_")
	return nil
}

func parsePattern(s string) (*callPattern, error) {
	p := &callPattern{src: s}
	s = strings.ReplaceAll(s, "$", "cap_")
	if t := strings.TrimSpace(s); strings.HasPrefix(t, "loop_continues(") && strings.HasSuffix(t, ")") {
		// pseudo-call: a loop (the N-th, when given) of the function under contract proceeds to its next iteration
		p.loopContinue = true
		p.loopOrd = -1
		if in := strings.TrimSpace(t[len("loop_continues(") : len(t)-1]); in != "" {
			n, err := strconv.Atoi(in)
			if err != nil {
				return nil, fmt.Errorf("pattern %q: loop_continues takes a loop ordinal", s)
			}
			p.loopOrd = n
		}
		p.recvSrc = "_"
		return p, nil
	}
	if t := strings.TrimSpace(s); t == "returns()" {
		// pseudo-call: the function under contract returns (conditions see its locals at that time)
		p.returns = true
		p.recvSrc = "_"
		return p, nil
	}
	if strings.HasPrefix(strings.TrimSpace(s), "call passing ") {
		ex, err := parser.ParseExpr(strings.TrimSpace(strings.TrimPrefix(strings.TrimSpace(s), "call passing ")))
		if err != nil {
			return nil, fmt.Errorf("pattern %q: %v", s, err)
		}
		x, ok := ex.(*ast.CallExpr)
		if !ok || len(x.Args) != 1 {
			return nil, fmt.Errorf("pattern %q: want `call passing T($x)`", s)
		}
		id, ok := x.Args[0].(*ast.Ident)
		if !ok || !strings.HasPrefix(id.Name, "cap_") {
			return nil, fmt.Errorf("pattern %q: want `call passing T($x)`", s)
		}
		p.passing = true
		p.recvSrc = "_"
		p.caps = append(p.caps, capture{name: strings.TrimPrefix(id.Name, "cap_"), typ: types.ExprString(x.Fun), pos: -1})
		return p, nil
	}
	callS, resS, hasRes := strings.Cut(s, "->")
	ex, err := parser.ParseExpr(strings.TrimSpace(callS))
	if err != nil {
		return nil, fmt.Errorf("pattern %q: %v", s, err)
	}
	call, ok := ex.(*ast.CallExpr)
	if !ok {
		return nil, fmt.Errorf("pattern %q is not a call", s)
	}
	switch f := call.Fun.(type) {
	case *ast.SelectorExpr:
		p.recvSrc = types.ExprString(f.X)
		// T($r).M(...): any receiver of interface type T, captured as $r
		if conv, ok := f.X.(*ast.CallExpr); ok && len(conv.Args) == 1 {
			if id, ok := conv.Args[0].(*ast.Ident); ok && strings.HasPrefix(id.Name, "cap_") {
				p.recvSrc = "_"
				p.recvCap = strings.TrimPrefix(id.Name, "cap_")
				p.recvCapType = types.ExprString(conv.Fun)
			}
		}
		if strings.HasPrefix(f.Sel.Name, "cap_") {
			p.methVar = strings.TrimPrefix(f.Sel.Name, "cap_")
		} else {
			p.method = f.Sel.Name
		}
	case *ast.Ident:
		p.method = f.Name
	case *ast.CallExpr:
		// each(X)(args): a call of one of the function values held in the slice X (hook lists)
		if id, ok := f.Fun.(*ast.Ident); ok && id.Name == "each" && len(f.Args) == 1 {
			p.recvSrc = types.ExprString(f.Args[0])
			p.elemOf = true
			p.dynamic = true
			break
		}
		return nil, fmt.Errorf("pattern %q: unsupported callee", s)
	default:
		return nil, fmt.Errorf("pattern %q: unsupported callee", s)
	}
	for i, a := range call.Args {
		switch x := a.(type) {
		case *ast.Ident:
			switch {
			case x.Name == "_":
			case x.Name == "__":
				p.rest = true
				if i != len(call.Args)-1 {
					return nil, fmt.Errorf("pattern %q: __ must be last", s)
				}
				continue
			case strings.HasPrefix(x.Name, "cap_"):
				p.caps = append(p.caps, capture{name: strings.TrimPrefix(x.Name, "cap_"), pos: i})
			default:
				return nil, fmt.Errorf("pattern %q: argument %s must be _, __ or a $capture (put equalities into `where`)", s, x.Name)
			}
		case *ast.CallExpr:
			id, ok := x.Args[0].(*ast.Ident)
			if len(x.Args) != 1 || !ok || !strings.HasPrefix(id.Name, "cap_") {
				return nil, fmt.Errorf("pattern %q: typed capture must be T($x)", s)
			}
			p.caps = append(p.caps, capture{name: strings.TrimPrefix(id.Name, "cap_"), typ: types.ExprString(x.Fun), pos: i})
		default:
			return nil, fmt.Errorf("pattern %q: unsupported argument", s)
		}
		p.nargs = i + 1
	}
	if hasRes {
		resS = strings.Trim(strings.TrimSpace(resS), "()")
		rs := strings.Split(resS, ",")
		fromEnd := len(rs) > 0 && strings.TrimSpace(rs[0]) == "__" // (__, $err): positions counted from the last result
		for i, r := range rs {
			r = strings.TrimSpace(r)
			if strings.HasPrefix(r, "cap_") {
				c := capture{name: strings.TrimPrefix(r, "cap_"), pos: i, isRes: true}
				if fromEnd {
					c.pos = i - len(rs) // negative: -1 is the last result
				}
				if r == "cap_err" || fromEnd {
					c.typ = "error"
				}
				p.caps = append(p.caps, c)
			}
		}
	}
	return p, nil
}

// ---------- template expansion ----------

// expandTemplates replaces every `methods` template of a package by one contract per selected method.
func expandTemplates(pkg *packages.Package, cs []*FuncContract) ([]*FuncContract, error) {
	var out []*FuncContract
	for _, fc := range cs {
		if fc.Sel == nil {
			out = append(out, fc)
			continue
		}
		if fc.Sel.Funcs {
			names, err := funcsHaving(pkg, fc.Sel)
			if err != nil {
				return nil, fmt.Errorf("%s:%d: %v", fc.File, fc.Line, err)
			}
			if len(names) == 0 {
				return nil, fmt.Errorf("%s:%d: function selector matches no function", fc.File, fc.Line)
			}
			for _, name := range names {
				out = append(out, instantiateTemplate(fc, name, nil))
			}
			continue
		}
		tn := strings.TrimPrefix(fc.Sel.TypeName, "*")
		obj := pkg.Types.Scope().Lookup(tn)
		if obj == nil {
			return nil, fmt.Errorf("%s:%d: unknown type %s", fc.File, fc.Line, tn)
		}
		T := obj.Type()
		if strings.HasPrefix(fc.Sel.TypeName, "*") {
			T = types.NewPointer(T)
		}
		var iface *types.Interface
		if fc.Sel.Of != "" {
			it, err := evalType(pkg, fc.Sel.Of)
			if err != nil {
				return nil, fmt.Errorf("%s:%d: %v", fc.File, fc.Line, err)
			}
			iface, _ = it.Underlying().(*types.Interface)
			if iface == nil {
				return nil, fmt.Errorf("%s:%d: %s is not an interface", fc.File, fc.Line, fc.Sel.Of)
			}
		}
		ms := types.NewMethodSet(T)
		var names []string
		sigs := map[string]*types.Signature{}
		for i := 0; i < ms.Len(); i++ {
			m := ms.At(i).Obj().(*types.Func)
			name := m.Name()
			if iface != nil {
				found := false
				for k := 0; k < iface.NumMethods(); k++ {
					if iface.Method(k).Name() == name {
						found = true
					}
				}
				if !found {
					continue
				}
			}
			if fc.Sel.Match != nil && !fc.Sel.Match.MatchString(name) {
				continue
			}
			if fc.Sel.In != nil && !fc.Sel.In[name] {
				continue
			}
			if fc.Sel.Except[name] {
				continue
			}
			names = append(names, name)
			sigs[name] = m.Type().(*types.Signature)
		}
		sort.Strings(names)
		if len(names) == 0 {
			return nil, fmt.Errorf("%s:%d: method selector matches no method", fc.File, fc.Line)
		}
		for _, name := range names {
			out = append(out, instantiateTemplate(fc, "("+fc.Sel.TypeName+")."+name, sigs[name]))
		}
	}
	return out, nil
}

func instantiateTemplate(fc *FuncContract, funcName string, sig *types.Signature) *FuncContract {
	cp := *fc
	cp.Sel = nil
	cp.FromTemplate = true
	cp.Func = funcName
	cp.sig = sig
	cp.invs = map[int][]string{}
	cp.regions = map[string]string{}
	cp.posts = nil
	cp.EffectCl = nil
	for _, ec := range fc.EffectCl {
		e2 := *ec
		ev := *ec.Every
		e2.Every = &ev
		if ec.Needs != nil {
			nd := *ec.Needs
			e2.Needs = &nd
		}
		e2.MoreNeeds = nil
		for _, mn := range ec.MoreNeeds {
			m2 := *mn
			e2.MoreNeeds = append(e2.MoreNeeds, &m2)
		}
		cp.EffectCl = append(cp.EffectCl, &e2)
	}
	return &cp
}

// funcsHaving lists (by the names go/ssa gives them) the functions, methods and function literals of the package
// that declare a parameter of the selector's name and type.
func funcsHaving(pkg *packages.Package, sel *MethodSelector) ([]string, error) {
	want, err := evalType(pkg, sel.HavingType)
	if err != nil {
		return nil, err
	}
	has := func(ft *ast.FuncType) bool {
		if ft.Params == nil {
			return false
		}
		for _, fld := range ft.Params.List {
			for _, n := range fld.Names {
				if n.Name == sel.HavingName && types.Identical(pkg.TypesInfo.TypeOf(fld.Type), want) {
					return true
				}
			}
		}
		return false
	}
	var names []string
	add := func(name string) {
		short := name
		if i := strings.LastIndex(name, ")."); i >= 0 {
			short = name[i+2:]
		}
		if sel.Match != nil && !sel.Match.MatchString(name) {
			return
		}
		if sel.In != nil && !sel.In[name] && !sel.In[short] {
			return
		}
		if sel.Except[name] || sel.Except[short] {
			return
		}
		names = append(names, name)
	}
	var walkLits func(node ast.Node, prefix string)
	walkLits = func(node ast.Node, prefix string) {
		for n := 1; ; n++ {
			lit := nthFuncLit(node, n)
			if lit == nil {
				return
			}
			name := fmt.Sprintf("%s$%d", prefix, n)
			if has(lit.Type) {
				add(name)
			}
			walkLits(lit.Body, name)
		}
	}
	for _, f := range pkg.Syntax {
		fname := pkg.Fset.Position(f.Pos()).Filename
		if strings.HasSuffix(fname, "_test.go") || strings.Contains(fname, "zz_") {
			continue
		}
		for _, d := range f.Decls {
			fd, ok := d.(*ast.FuncDecl)
			if !ok || fd.Body == nil {
				continue
			}
			name := fd.Name.Name
			if fd.Recv != nil && len(fd.Recv.List) == 1 {
				t := fd.Recv.List[0].Type
				star := ""
				if s, ok := t.(*ast.StarExpr); ok {
					t = s.X
					star = "*"
				}
				if ix, ok := t.(*ast.IndexExpr); ok {
					t = ix.X
				}
				if id, ok := t.(*ast.Ident); ok {
					name = "(" + star + id.Name + ")." + name
				}
			}
			if has(fd.Type) {
				add(name)
			}
			walkLits(fd.Body, name)
		}
	}
	sort.Strings(names)
	return names, nil
}

func evalType(pkg *packages.Package, src string) (types.Type, error) {
	ex, err := parser.ParseExpr(src)
	if err != nil {
		return nil, err
	}
	info := &types.Info{Types: map[ast.Expr]types.TypeAndValue{}}
	// file scope of the first file: imports are visible there
	pos := pkg.Syntax[0].Name.End()
	for _, f := range pkg.Syntax {
		if len(f.Imports) > 0 {
			pos = f.Name.End()
		}
	}
	if err := types.CheckExpr(pkg.Fset, pkg.Types, pos, ex, info); err != nil {
		// try every file (imports differ per file)
		for _, f := range pkg.Syntax {
			info = &types.Info{Types: map[ast.Expr]types.TypeAndValue{}}
			if e2 := types.CheckExpr(pkg.Fset, pkg.Types, f.Name.End(), ex, info); e2 == nil {
				return info.Types[ex].Type, nil
			}
		}
		return nil, err
	}
	return info.Types[ex].Type, nil
}

// ---------- lowering ----------

// lowerEffects generates, for every effect clause of fc, the receiver functions and the where function.
func (lc *lowerCtx) lowerEffects(fc *FuncContract, body *strings.Builder, checkPos func(ast.Expr) (types.Type, *types.Info, error)) error {
	base := fc.base()
	for k, ec := range fc.EffectCl {
		capTypes := map[string]string{}
		for pi, p := range append([]*callPattern{ec.Every, ec.Needs}, ec.MoreNeeds...) {
			if p == nil {
				continue
			}
			var sig *types.Signature
			if p.elemOf {
				rex, _ := parser.ParseExpr(p.recvSrc)
				rt, _, err := checkPos(rex)
				if err != nil {
					return fmt.Errorf("pattern %q: %v", p.src, err)
				}
				sl, ok := rt.Underlying().(*types.Slice)
				if !ok {
					return fmt.Errorf("pattern %q: each() needs a slice of function values", p.src)
				}
				fs, ok := sl.Elem().Underlying().(*types.Signature)
				if !ok {
					return fmt.Errorf("pattern %q: each() needs a slice of function values", p.src)
				}
				sig = fs
				p.recvFunc = fmt.Sprintf("verif_effrecv_%d_%d_%s", k, pi, base)
				ps, err := lc.paramList(lc.usedNames(rex), "requires", nil)
				if err != nil {
					return err
				}
				fmt.Fprintf(body, "func %s(%s) %s {\n\treturn %s\n}\n\n", p.recvFunc, ps, types.TypeString(rt, lc.g.qualifier), p.recvSrc)
			} else if p.recvSrc != "" && p.recvSrc != "_" {
				rex, _ := parser.ParseExpr(p.recvSrc)
				rt, info, err := checkPos(rex)
				_ = info
				if err == nil && rt != nil {
					if it, ok := rt.Underlying().(*types.Interface); ok {
						// interface receiver: invoke pattern
						p.iface = it
						p.recvIfaceName = types.TypeString(rt, nil)
						p.recvFunc = fmt.Sprintf("verif_effrecv_%d_%d_%s", k, pi, base)
						names := lc.usedNames(rex)
						ps, err := lc.paramList(names, "requires", nil)
						if err != nil {
							return err
						}
						fmt.Fprintf(body, "func %s(%s) any {\n\treturn %s\n}\n\n", p.recvFunc, ps, p.recvSrc)
						if p.method != "" {
							for i := 0; i < it.NumMethods(); i++ {
								if it.Method(i).Name() == p.method {
									sig = it.Method(i).Type().(*types.Signature)
								}
							}
							if sig == nil {
								return fmt.Errorf("pattern %q: interface has no method %s", p.src, p.method)
							}
						}
					} else {
						// concrete receiver: static method call
						sex, _ := parser.ParseExpr(p.recvSrc + "." + p.method)
						_, sinfo, err := checkPos(sex)
						if err != nil {
							return fmt.Errorf("pattern %q: %v", p.src, err)
						}
						if sel, ok := sinfo.Selections[sex.(*ast.SelectorExpr)]; ok {
							if f, isFunc := sel.Obj().(*types.Func); isFunc {
								p.static = f.FullName()
								sig = f.Type().(*types.Signature)
								p.recvSrc = ""
							} else if fs, isSig := sel.Type().Underlying().(*types.Signature); isSig {
								// call of a func-typed field: matched by the identity of the function value
								p.dynamic = true
								sig = fs
								p.recvFunc = fmt.Sprintf("verif_effrecv_%d_%d_%s", k, pi, base)
								names := lc.usedNames(sex)
								ps, err := lc.paramList(names, "requires", nil)
								if err != nil {
									return err
								}
								fmt.Fprintf(body, "func %s(%s) any {\n\treturn %s\n}\n\n", p.recvFunc, ps, p.recvSrc+"."+p.method)
							}
						}
					}
				} else {
					// package-qualified function
					sex, _ := parser.ParseExpr(p.recvSrc + "." + p.method)
					_, sinfo, err := checkPos(sex)
					if err != nil {
						return fmt.Errorf("pattern %q: %v", p.src, err)
					}
					if f, ok := sinfo.Uses[sex.(*ast.SelectorExpr).Sel].(*types.Func); ok {
						p.static = f.FullName()
						sig = f.Type().(*types.Signature)
					} else {
						return fmt.Errorf("pattern %q: cannot resolve callee", p.src)
					}
					p.recvSrc = ""
				}
			} else if p.recvSrc == "" {
				// plain function of this package
				if f, ok := lc.pkg.Types.Scope().Lookup(p.method).(*types.Func); ok {
					p.static = f.FullName()
					sig = f.Type().(*types.Signature)
				} else {
					// a parameter or variable of function type: matched by the identity of the function value
					vex, _ := parser.ParseExpr(p.method)
					vt, _, verr := checkPos(vex)
					fs, isSig := (types.Type)(nil), false
					if verr == nil && vt != nil {
						fs, isSig = vt.Underlying().(*types.Signature)
					}
					if !isSig {
						return fmt.Errorf("pattern %q: unknown function %s", p.src, p.method)
					}
					p.dynamic = true
					sig = fs.(*types.Signature)
					p.recvFunc = fmt.Sprintf("verif_effrecv_%d_%d_%s", k, pi, base)
					ps, err := lc.paramList(lc.usedNames(vex), "requires", nil)
					if err != nil {
						return err
					}
					fmt.Fprintf(body, "func %s(%s) any {\n\treturn %s\n}\n\n", p.recvFunc, ps, p.method)
				}
			}
			if p.recvCap != "" {
				tt, err := evalTypeIn(lc, p.recvCapType)
				if err != nil {
					return fmt.Errorf("pattern %q: receiver type: %v", p.src, err)
				}
				it, ok := tt.Underlying().(*types.Interface)
				if !ok {
					return fmt.Errorf("pattern %q: receiver capture needs an interface type", p.src)
				}
				p.iface = it
				p.recvCapSuffix = types.TypeString(tt, nil)
				capTypes["cap_"+p.recvCap] = types.TypeString(tt, lc.g.qualifier)
				if p.method != "" {
					for i := 0; i < it.NumMethods(); i++ {
						if it.Method(i).Name() == p.method {
							sig = it.Method(i).Type().(*types.Signature)
						}
					}
				}
			}
			for ci := range p.caps {
				c := &p.caps[ci]
				if c.typ == "" {
					if sig == nil {
						return fmt.Errorf("pattern %q: capture $%s needs a type: T($%s)", p.src, c.name, c.name)
					}
					var t types.Type
					if c.isRes {
						if c.pos >= sig.Results().Len() {
							return fmt.Errorf("pattern %q: no result %d", p.src, c.pos)
						}
						t = sig.Results().At(c.pos).Type()
					} else {
						if c.pos >= sig.Params().Len() {
							return fmt.Errorf("pattern %q: no parameter %d", p.src, c.pos)
						}
						t = sig.Params().At(c.pos).Type()
						if sig.Variadic() && c.pos == sig.Params().Len()-1 {
							return fmt.Errorf("pattern %q: cannot capture a variadic parameter", p.src)
						}
					}
					c.typ = types.TypeString(t, lc.g.qualifier)
					c.canon = canonType(t)
				} else {
					// make sure the type's package is imported by the generated file
					if tt, err := evalTypeIn(lc, c.typ); err == nil {
						c.typ = types.TypeString(tt, lc.g.qualifier)
						c.canon = canonType(tt)
					}
				}
				capTypes["cap_"+c.name] = c.typ
			}
			if p.methVar != "" {
				capTypes["cap_"+p.methVar] = "string"
			}
		}
		where := ec.Where
		if where == "" {
			where = "true"
		}
		// old(e) inside a where condition is e evaluated in the entry state of the function
		var olds []string
		ifCond := ec.If
		{
			joined, os := extractOlds(where + " §§ " + ifCond)
			olds = os
			where, ifCond, _ = strings.Cut(joined, " §§ ")
			ifCond = strings.TrimSpace(ifCond)
		}
		ec.oldFns = nil
		for oi, oe := range olds {
			oex, err := parser.ParseExpr(oe)
			if err != nil {
				return fmt.Errorf("effect %s: old(%s): %v", ec.Label, oe, err)
			}
			ot, _, err := checkPos(oex)
			if err != nil {
				return fmt.Errorf("effect %s: old(%s): %v", ec.Label, oe, err)
			}
			ops, err := lc.paramList(lc.usedNames(oex), "requires", nil)
			if err != nil {
				return err
			}
			ofn := fmt.Sprintf("verif_effold_%s_%d_%d_%s", safeName(ec.Label), k, oi, base)
			fmt.Fprintf(body, "func %s(%s) %s {\n\treturn %s\n}\n\n", ofn, ops, types.TypeString(ot, lc.g.qualifier), oe)
			ec.oldFns = append(ec.oldFns, ofn)
			capTypes[fmt.Sprintf("gocvold_%d", oi)] = types.TypeString(ot, lc.g.qualifier)
		}
		for ci, cond := range []string{where, ifCond} {
			if ci == 1 && cond == "" {
				continue
			}
			low, err := lowerExpr(cond)
			if err != nil {
				return err
			}
			wex, err := parser.ParseExpr(low)
			if err != nil {
				return fmt.Errorf("effect %s: %v in %q", ec.Label, err, low)
			}
			names := lc.usedNames(wex)
			// captures are parameters too
			seen := map[string]bool{}
			for _, n := range names {
				seen[n] = true
			}
			ast.Inspect(wex, func(n ast.Node) bool {
				if id, ok := n.(*ast.Ident); ok && strings.HasPrefix(id.Name, "cap_") && !seen[id.Name] {
					if _, ok := capTypes[id.Name]; ok {
						names = append(names, id.Name)
						seen[id.Name] = true
					}
				}
				return true
			})
			sort.Strings(names)
			ps, err := lc.paramList(names, "ensures", capTypes) // conditions may name the function's results (err)
			if err != nil {
				return err
			}
			fn := fmt.Sprintf("verif_eff_%s_%d_%s", safeName(ec.Label), k, base)
			if ci == 1 {
				fn = fmt.Sprintf("verif_effif_%s_%d_%s", safeName(ec.Label), k, base)
				ec.ifFn = fn
			} else {
				ec.whereFn = fn
			}
			fmt.Fprintf(body, "func %s(%s) bool {\n\treturn %s\n}\n\n", fn, ps, low)
		}
	}
	return nil
}

func evalTypeIn(lc *lowerCtx, src string) (types.Type, error) { return evalType(lc.pkg, src) }

// ---------- evaluation over the trace ----------

type matchInfo struct {
	cond string         // additional condition (receiver equality)
	caps map[string]Val // cap_x -> value
}

func (e *Engine) matchPattern(sp *ssa.Package, p *callPattern, ev Event, prov0 func(string) (Val, bool)) (*matchInfo, bool) {
	mi := &matchInfo{cond: "true", caps: map[string]Val{}}
	// a receiver expression may name a local of the function under contract (its value at the time of the event)
	prov := func(name string) (Val, bool) {
		if v, ok := prov0(name); ok {
			return v, true
		}
		if e.topFrame != nil && ev.St != nil {
			if _, ok := e.topFrame.named[name]; ok {
				if v, ok := localAt(e.topFrame, name, ev.St); ok {
					return v, true
				}
			}
		}
		return nil, false
	}
	if p.loopContinue {
		if ev.Callee == "<loop-continues>" && (p.loopOrd < 0 || p.loopOrd == ev.LoopOrd) {
			return mi, true
		}
		return nil, false
	}
	if p.returns {
		if ev.Callee == "<returns>" {
			return mi, true
		}
		return nil, false
	}
	if ev.Callee == "<loop-continues>" || ev.Callee == "<returns>" {
		return nil, false
	}
	if p.passing {
		c := p.caps[0]
		for i, at := range ev.ArgTypes {
			if at == nil || i >= len(ev.Args) {
				continue
			}
			if canonType(at) == c.canon {
				mi.caps["cap_"+c.name] = ev.Args[i]
				return mi, true
			}
		}
		return nil, false
	}
	if p.dynamic {
		if ev.Callee != "<dynamic>" || ev.RecvT == "" {
			return nil, false
		}
		rf := sp.Func(p.recvFunc)
		if rf == nil {
			return nil, false
		}
		rv := e.pureCallIn(sp, rf, e.bindLowered(rf, prov), nil, e.entryState)[0]
		if p.elemOf {
			sv, ok := rv.(SliceV)
			if !ok || sv.Arr == nil {
				return nil, false
			}
			leafT, ok := e.arr(e.entryState, sv.Arr)[".u"]
			if !ok {
				return nil, false
			}
			// provenance, not value: the called function value was read out of that very slice (a function value may
			// be registered in two hook lists; which list is being run is a matter of where the value was loaded from)
			if !strings.HasPrefix(e.expandDefs(ev.RecvT), "(select "+e.expandDefs(leafT)+" ") {
				return nil, false
			}
		} else {
			rt, ok := rv.(OpaqueV)
			if !ok {
				return nil, false
			}
			mi.cond = eq(rt.T, ev.RecvT)
			if mi.cond == "false" {
				return nil, false
			}
		}
	} else if p.static != "" {
		if ev.Static == nil {
			return nil, false
		}
		if staticFullName(ev.Static) != p.static && ev.Static.String() != p.static {
			// an instance of a generic function is a call of that generic function
			if o := ev.Static.Origin(); o == nil || (staticFullName(o) != p.static && o.String() != p.static) {
				return nil, false
			}
		}
	} else {
		if ev.Static != nil || ev.Iface == "" {
			return nil, false
		}
		// a call through a value of another interface type is not a call on this receiver expression
		if p.recvIfaceName != "" && p.recvSrc != "_" && ev.Iface != p.recvIfaceName {
			return nil, false
		}
		if p.method != "" && ev.Callee != p.method {
			return nil, false
		}
		if p.recvCap != "" {
			if ev.RecvT == "" {
				return nil, false
			}
			if p.iface != nil {
				found := false
				for i := 0; i < p.iface.NumMethods(); i++ {
					if p.iface.Method(i).Name() == ev.Callee {
						found = true
					}
				}
				// the receiver's static type must be that interface (or one that has all its methods)
				if !found || !strings.HasSuffix(ev.Iface, p.recvCapSuffix) {
					return nil, false
				}
			}
			mi.caps["cap_"+p.recvCap] = OpaqueV{ev.RecvT}
		}
		if p.recvSrc != "_" {
			rf := sp.Func(p.recvFunc)
			if rf == nil {
				return nil, false
			}
			as := e.bindLowered(rf, prov)
			rv := e.pureCallIn(sp, rf, as, nil, e.entryState)[0]
			rt, ok := rv.(OpaqueV)
			if !ok || ev.RecvT == "" {
				return nil, false
			}
			mi.cond = eq(rt.T, ev.RecvT)
			if mi.cond == "false" {
				return nil, false
			}
			if p.methVar != "" && p.iface != nil {
				found := false
				for i := 0; i < p.iface.NumMethods(); i++ {
					if p.iface.Method(i).Name() == ev.Callee {
						found = true
					}
				}
				if !found {
					return nil, false
				}
			}
		}
		if p.methVar != "" {
			mi.caps["cap_"+p.methVar] = StrV{smtString(ev.Callee)}
		}
	}
	args := ev.Args
	if ev.Static != nil && ev.Static.Signature.Recv() != nil && len(args) > 0 {
		args = args[1:] // the receiver of a concrete method is not part of the pattern's argument list
	}
	argTypes := ev.ArgTypes
	if ev.Static != nil && ev.Static.Signature.Recv() != nil && len(argTypes) > 0 {
		argTypes = argTypes[1:]
	}
	if !p.rest && len(args) != p.nargs || p.rest && len(args) < p.nargs {
		if p.methVar != "" || p.recvSrc == "_" {
			return nil, false
		}
		return nil, false
	}
	for _, c := range p.caps {
		if c.isRes {
			pos := c.pos
			if pos < 0 {
				pos = len(ev.Res) + pos
			}
			if pos < 0 || pos >= len(ev.Res) {
				return nil, false
			}
			if c.typ == "error" {
				if _, isErr := ev.Res[pos].(ErrV); !isErr {
					return nil, false
				}
			}
			rv := ev.Res[pos]
			// a captured pointer result denotes the object as it was returned (later writes through the pointer by the
			// function under contract are not seen through the capture)
			if pv, isPtr := rv.(PtrV); isPtr && ev.St != nil && pv.Nil != "true" {
				rv = e.snapshot(ev.St, pv)
			}
			mi.caps["cap_"+c.name] = rv
			continue
		}
		if c.pos >= len(args) {
			return nil, false
		}
		if c.pos < len(argTypes) && argTypes[c.pos] != nil && (p.methVar != "" || p.recvSrc == "_") {
			// typed capture on a method variable: the argument must have exactly that type
			have := canonType(argTypes[c.pos])
			want := c.canon
			if want == "" {
				want = c.typ
			}
			if have != want && !strings.HasSuffix(have, "."+want) && !strings.HasSuffix(want, "."+have) {
				return nil, false
			}
		}
		mi.caps["cap_"+c.name] = args[c.pos]
	}
	return mi, true
}

// effectObligations generates the obligations of the effect clauses of the function under contract.
func (e *Engine) effectObligations(sp *ssa.Package, fc *FuncContract, fn *ssa.Function, args, bind []Val) {
	ep := e.entryProvider(fn, args, bind, e.entryState)
	prov := func(name string) (Val, bool) {
		if fc.RecvName != "" && name == fc.RecvName && len(args) > 0 {
			return args[0], true
		}
		if v, ok := ep(name); ok {
			return v, true
		}
		// the function's own results (merged over its return sites)
		for i, rn := range resultNames(fn.Signature) {
			if rn == name && i < len(e.exitVals) {
				return e.exitVals[i], true
			}
		}
		return nil, false
	}
	for _, ec := range fc.EffectCl {
		if ec.History {
			continue // assumed while the events were recorded
		}
		wf := sp.Func(ec.whereFn)
		if wf == nil {
			panic(unsupported{"missing lowered effect condition " + ec.whereFn})
		}
		olds := map[string]Val{}
		for oi, on := range ec.oldFns {
			of := sp.Func(on)
			if of == nil {
				panic(unsupported{"missing lowered old() function " + on})
			}
			olds[fmt.Sprintf("gocvold_%d", oi)] = e.pureCallIn(sp, of, e.bindLowered(of, prov), nil, e.entryState)[0]
		}
		evalWhereIn := func(caps map[string]Val, st *State) string {
			as := e.bindLowered(wf, func(name string) (Val, bool) {
				if v, ok := caps[name]; ok {
					return e.thaw(v), true
				}
				if v, ok := olds[name]; ok {
					return v, true
				}
				return prov(name)
			})
			if st == nil {
				st = e.entryState
			}
			return e.pureCallIn(sp, wf, as, nil, st)[0].(BoolV).T
		}
		var curEv *Event
		evalWhere := func(caps map[string]Val) string {
			if curEv != nil && curEv.St != nil {
				// locals of the function under contract denote their value at the time of the obliged event
				if e.topFrame != nil && e.topFrame.fn == fn {
					withLocals := map[string]Val{}
					for k, v := range caps {
						withLocals[k] = v
					}
					// captured variables of a closure under contract: their value at the time of the event too
					for i, fv := range fn.FreeVars {
						if _, taken := withLocals[fv.Name()]; taken || i >= len(bind) {
							continue
						}
						if v := e.load(curEv.St, bind[i], fv.Type().(*types.Pointer).Elem(), "true", token.NoPos); v != nil {
							withLocals[fv.Name()] = v
						}
					}
					for name, c := range e.topFrame.named {
						if _, taken := withLocals[name]; taken {
							continue
						}
						if _, isParam := ep(name); isParam {
							continue
						}
						isResult := false
						for _, rn := range resultNames(fn.Signature) {
							if rn == name {
								isResult = true
							}
						}
						if isResult {
							continue // `err`, `result`: the function's results, not a local that happens to share the name
						}
						if v, ok := localAt(e.topFrame, name, curEv.St); ok {
							withLocals[name] = v
						} else {
							withLocals[name] = e.zero(curEv.St, c.Typ) // not yet declared at the time of the event
						}
					}
					return evalWhereIn(withLocals, curEv.St)
				}
				return evalWhereIn(caps, curEv.St)
			}
			return evalWhereIn(caps, nil)
		}
		matched := 0
		var clauseReaches []string
		for _, ev := range e.events {
			mi, ok := e.matchPattern(sp, ec.Every, ev, prov)
			if !ok {
				continue
			}
			matched++
			evCopy := ev
			curEv = &evCopy
			reach := and(ev.Guard, mi.cond)
			if ec.ifFn != "" {
				iff := sp.Func(ec.ifFn)
				if iff == nil {
					panic(unsupported{"missing lowered effect filter " + ec.ifFn})
				}
				as := e.bindLowered(iff, func(name string) (Val, bool) {
					if v, ok := mi.caps[name]; ok {
						return e.thaw(v), true
					}
					if v, ok := olds[name]; ok {
						return v, true
					}
					if ev.St != nil {
						for i, fv := range fn.FreeVars {
							if fv.Name() == name && i < len(bind) {
								if v := e.load(ev.St, bind[i], fv.Type().(*types.Pointer).Elem(), "true", token.NoPos); v != nil {
									return v, true
								}
							}
						}
					}
					if v, ok := prov(name); ok {
						return v, true
					}
					// a local of the function under contract: its value at the time of the event
					if e.topFrame != nil && e.topFrame.fn == fn && ev.St != nil {
						if c, ok := e.topFrame.named[name]; ok {
							if v, ok := localAt(e.topFrame, name, ev.St); ok {
								return v, true
							}
							// declared later than the event: the variable does not exist yet; its zero value stands in
							return e.zero(ev.St, c.Typ), true
						}
					}
					return nil, false
				})
				stf := ev.St
				if stf == nil {
					stf = e.entryState
				}
				reach = and(reach, e.pureCallIn(sp, iff, as, nil, stf)[0].(BoolV).T)
				if reach == "false" {
					continue
				}
			}
			var goal string
			if ec.Needs == nil {
				goal = evalWhere(mi.caps)
			} else {
				var dis []string
				pats := append([]*callPattern{ec.Needs}, ec.MoreNeeds...)
				dirs := append([]string{ec.NeedsDir}, ec.MoreDirs...)
				// enumerate tuples of events, one per needs pattern
				var rec func(k int, caps map[string]Val, guards []string)
				rec = func(k int, caps map[string]Val, guards []string) {
					if k == len(pats) {
						dis = append(dis, and(append(guards, evalWhere(caps))...))
						return
					}
					for _, fv := range e.events {
						if ec.Forbid && fv.Seq != ev.Seq {
							// A summarised loop shows one arbitrary iteration. An event that stands earlier in the body
							// of a loop both calls sit in happens AFTER the obliged call as well - in the next iteration -
							// when the loop goes on after the obliged call; and one that stands later in the body has
							// happened BEFORE it when an earlier iteration went on after that event. What the next
							// (previous) iteration's values are is unknown: the match is assumed possible.
							if l := commonLoop(ev, fv); l != 0 && (dirs[k] == "after") == (fv.Seq < ev.Seq) {
								if _, ok := e.matchPattern(sp, pats[k], fv, prov); ok {
									later := ev.Seq
									if fv.Seq > later {
										later = fv.Seq
									}
									for _, cv := range e.events {
										if cv.Callee == "<loop-continues>" && cv.LoopID == l && cv.Seq > later {
											if dirs[k] == "after" && len(ev.Loops) > 0 && innermostLoop(ev, e.events) == l {
												dis = append(dis, and(append(append([]string{}, guards...), cv.Guard)...))
											} else {
												// the obliged call sits in a loop nested in this one: the summary of the
												// inner loop does not relate its iterations to the way the outer loop
												// goes on, so going on is assumed possible
												dis = append(dis, and(guards...))
											}
										}
									}
								}
							}
						}
						if dirs[k] == "before" && fv.Seq >= ev.Seq || dirs[k] == "after" && fv.Seq <= ev.Seq {
							continue
						}
						mf, ok := e.matchPattern(sp, pats[k], fv, prov)
						if !ok {
							continue
						}
						nc := map[string]Val{}
						for kk, v := range caps {
							nc[kk] = v
						}
						for kk, v := range mf.caps {
							nc[kk] = v
						}
						rec(k+1, nc, append(append([]string{}, guards...), fv.Guard, mf.cond))
					}
				}
				rec(0, mi.caps, nil)
				goal = or(dis...)
				// A needed event inside a summarised range loop exists if it exists in SOME iteration. The index of
				// the summarised iteration is arbitrary; instantiating it to the first iteration (index -1 before the
				// increment) is a sound witness as long as the obliged event itself does not depend on that index.
				if !ec.Forbid && len(e.loopIdxSyms) > 0 {
					xg, xr := e.expandDefs(goal), e.expandDefs(reach)
					for _, sym := range e.loopIdxSyms {
						if containsSym(xg, sym) && !containsSym(xr, sym) {
							// stated as a hypothesis (equivalent to substituting it in the goal, since the obliged event
							// does not depend on it) so that shared definitions stay shared
							reach = and(reach, "(= "+sym+" (- 1))")
						}
					}
				}
				if ec.Forbid {
					goal = not(goal)
				}
			}
			callee := ev.Callee
			if ev.Static != nil {
				callee = ev.Static.Name()
			}
			clauseReaches = append(clauseReaches, reach)
			if ob := e.oblige("effect", ec.Label+":"+callee, reach, goal, ev.Pos); ob == nil && goal != "true" {
				_ = ob
			}
		}
		e.effectMatches[ec.Label] += matched
		// vacuity: an `every` clause whose matching calls are all unreachable (a contradiction in what was assumed on the
		// way, e.g. in a callee contract) proves nothing
		if !ec.Never && len(clauseReaches) > 0 {
			e.obls = append(e.obls, Oblig{Name: fnDisplayName(fn) + "#cover:effect:" + ec.Label, Kind: "cover", Reach: or(clauseReaches...), Goal: "false", NFacts: len(e.facts), Pos: e.fset.Position(fn.Pos()), Expect: "sat"})
		}
	}
}

// thaw turns the snapshot of a pointer argument back into a pointer the executor can dereference.
func (e *Engine) thaw(v Val) Val {
	if sp, ok := v.(SnapPtr); ok {
		if sp.Content == nil {
			return PtrV{Nil: sp.Nil, Elem: nil, Name: "snap"}
		}
		sv, _ := sp.Content.(StructV)
		c := e.newCell(nil, "snap")
		e.inputCells[c] = sp.Content
		var elem types.Type
		if sv.Typ != nil {
			elem = sv.Typ
		}
		if sp.ElemT != nil {
			elem = sp.ElemT
		}
		c.Typ = elem
		name := fmt.Sprintf("snap#%d", c.id)
		if _, boxed := e.boxedTerm[sp.Name]; boxed {
			name = sp.Name // keeps the identity of a pointer that was read from a container
		}
		// two snapshots of one and the same pointer compare equal (see binop)
		if e.snapOrigin == nil {
			e.snapOrigin = map[*Cell]string{}
		}
		// pointer names are identities: parameters by name, allocations by name#id, container reads by their term
		origin := sp.Name
		if origin == "" && sp.Cell != nil {
			origin = fmt.Sprintf("cell/%d", sp.Cell.id)
		}
		e.snapOrigin[c] = origin
		return PtrV{Nil: sp.Nil, Cell: c, Elem: elem, Name: name}
	}
	return v
}

// patterns lists the call patterns of a clause.
func (ec *EffectClause) patterns() []*callPattern {
	ps := []*callPattern{ec.Every, ec.Needs}
	return append(ps, ec.MoreNeeds...)
}

// commonLoop is the identity of the innermost loop two events both sit in (0: none).
func commonLoop(a, b Event) int {
	for i := len(a.Loops) - 1; i >= 0; i-- {
		for _, l := range b.Loops {
			if l == a.Loops[i] {
				return l
			}
		}
	}
	return 0
}

// innermostLoop is the identity of the innermost loop an event sits in (Loops lists them outermost first).
func innermostLoop(ev Event, all []Event) int {
	if len(ev.Loops) == 0 {
		return 0
	}
	return ev.Loops[len(ev.Loops)-1]
}

// localAt is the value of the local variable `name` of the function under contract in the state st: of the variables
// declared under that name (shadowing, one per loop) the one declared last before the state was taken.
func localAt(f *frame, name string, st *State) (Val, bool) {
	cs := f.namedAll[name]
	for i := len(cs) - 1; i >= 0; i-- {
		if v, ok := st.cells[cs[i]]; ok && v != nil {
			return v, true
		}
	}
	return nil, false
}
