package main

// Effect rules: obligations over the call trace of a function (typestate, method-set templates).

type EffectRule struct {
	Prop string
	Name string
	File string
	Pkg  string
	Body []string
}

func parseRules(path string, overlay []byte) ([]*EffectRule, error) { return nil, nil }

func (c *Context) runRule(r *EffectRule) []*FuncResult { return nil }

func replayEffect(ctx *Context, r *OblResult, outDir string) (bool, string) {
	return false, "effect obligations are replayed by hand-written drivers"
}
