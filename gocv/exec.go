package main

import (
	"fmt"
	"go/constant"
	"go/token"
	"go/types"
	"os"
	"sort"
	"strings"

	"golang.org/x/tools/go/ssa"
)

// Event is one entry of the call trace: a call of an interface method or of a
// function that is neither inlined nor replaced by a contract.
type Event struct {
	Guard  string
	Recv   Val    // receiver value of an invoke (nil for static calls)
	RecvT  string // flat term of the receiver ("" if none)
	Callee string // method name for invokes, full name for static calls
	Iface  string // interface type for invokes
	Static *ssa.Function
	Args   []Val // snapshots (pointer arguments resolved to their contents at call time)
	ArgTypes []types.Type
	Res    []Val
	Seq    int
	Pos    token.Pos
	InLoop bool
	Loops  []int // identities of the (summarised) loops the call sits in, innermost last
	LoopID int   // <loop-continues>: identity of the loop that continues
	LoopOrd int  // <loop-continues>: ordinal of that loop in its function (source order)
	St     *State // heap at the time of the call (only kept for functions with effect clauses)
}

// SnapPtr is the snapshot of a pointer-to-struct argument at call time.
type SnapPtr struct {
	Nil     string
	Content Val
	Cell    *Cell
	ElemT   types.Type
	Name    string // name of the pointer that was snapshotted (identity of pointers read from containers)
}

type Oblig struct {
	Name   string
	Kind   string // ensures | overflow | bounds | nopanic | inv-entry | inv-preserved | requires | effect | frame | cover
	Label  string // contract label (ensures) or ""
	Reach  string
	Goal   string
	NFacts int // facts known when the obligation was generated
	Pos    token.Position
	Post   string // lowered postcondition function, for replay
	Expect string // "unsat" (default) or "sat" for vacuity covers
}

// FuncCfg is the per-function configuration taken from the contract file.
type FuncCfg struct {
	Arith   string // "int": mathematical integers with overflow obligations; "none": no overflow obligations; "bv": bit-vectors
	Effects bool   // loops without invariant are summarised (effect contracts only)
	Inline  map[string]bool
	Havoc   map[string]bool
	NoPanic bool // generate #nopanic obligations for nil dereferences
}

type Engine struct {
	ctx         *Context
	prog        *ssa.Program
	pkg         *ssa.Package
	fset        *token.FileSet
	cfg         FuncCfg
	fc          *FuncContract
	decls       []string // declarations and definitions, in order
	facts       []string // unconditional assumptions, in order
	nfresh      int
	obls        []Oblig
	oblNames    map[string]int
	pure        int
	top         *ssa.Function
	events      []Event
	ufs         map[string]bool
	named       map[string]Val // deterministic symbolic inputs by name
	ptrCell     map[string]*Cell
	ncell       int
	forced      map[*ssa.If]bool // split points: forced branch direction
	inlineDepth int
	inputArrs   map[*Arr]map[string]string // initial contents of symbolic input arrays
	inputCells  map[*Cell]Val              // initial contents of lazily materialised input objects
	inputState  *State
	mergeOut    *State
	freshMerges int
	splitAt     *ssa.If
	volatile    map[*Cell]bool
	opaqueStore, opaqueDerefUsed bool
	freshMergeDepth int
	enclosing   map[string]Val // parameters of enclosing functions that a closure under contract does not capture
	topFrame    *frame // frame of the function under contract (locals by name for effect conditions)
	mergedCell  map[string]*Cell   // mergedptr name -> the stand-in object its dereferences read
	mergedOf    map[*Cell][]*Cell  // candidate object -> stand-in objects that may alias it
	trustedUsed map[string]bool
	havocked    map[string]bool
	recDefs     map[string]bool
	symUsed     map[string]int // names already given to symbolic structs/pointers (identity is the name)
	hist        histHome
	tasserts    map[string]TupleV // (interface term / asserted type) -> (value, ok)
	sameState   *State
	inLoop      int
	boxed       map[string]Val
	notes       []string
	entryArgs   []Val
	entryState  *State
	exitState   *State
	exitVals    []Val
	exitReach   string
	effectMatches map[string]int
	noInline      map[string]bool // full names of callees that effect patterns speak about: they must stay events
	quiet         int
	arrCap        map[*Arr]string
	trivial       []string
	curState      *State
	ctxParent     *ssa.Function
	ctxParentArgs []Val
	utcTimes      map[string]bool
	loopIdxSyms   []string // the (havocked) hidden index of every summarised range loop
	loopStack     []int
	nLoopIDs      int
	approxLoops   []string // loops without invariant that were summarised by forgetting what they write (non-effect mode): failures need a replayed counterexample
	snapOrigin    map[*Cell]string
	mapUpd        map[*ssa.Function]map[string]bool
	ipText       map[*Arr]string   // net.IP values: the text they were parsed from
	netTerm       map[string]string // *net.IPNet pointers (by name): their abstract network term
	boxedTerm     map[string]string // pointers read back from containers: the opaque term they were read as
}

func (e *Engine) bv() bool { return e.cfg.Arith == "bv" }

func (e *Engine) intSort(t types.Type) string {
	if e.bv() {
		return fmt.Sprintf("(_ BitVec %d)", intWidth(t))
	}
	return "Int"
}

func (e *Engine) idxSort() string {
	if e.bv() {
		return "(_ BitVec 64)"
	}
	return "Int"
}

func (e *Engine) arrSort(elem string) string { return "(Array " + e.idxSort() + " " + elem + ")" }

// lit is an integer literal of type int in the current arithmetic mode.
func (e *Engine) lit(n int64) string { return e.litT(n, types.Typ[types.Int]) }

func (e *Engine) litT(n int64, t types.Type) string {
	if e.bv() {
		w := intWidth(t)
		u := uint64(n)
		if w < 64 {
			u &= (1 << uint(w)) - 1
		}
		return fmt.Sprintf("(_ bv%d %d)", u, w)
	}
	return intLit(n)
}

func (e *Engine) scalarSort(t types.Type) (string, bool) {
	if isTime(t) {
		return "Int", true
	}
	if b, ok := t.Underlying().(*types.Basic); ok {
		switch {
		case b.Info()&types.IsInteger != 0:
			return e.intSort(t), true
		case b.Info()&types.IsBoolean != 0:
			return "Bool", true
		case b.Info()&types.IsString != 0:
			return "String", true
		case b.Info()&types.IsFloat != 0:
			return "Real", true
		}
	}
	return "", false
}

func (e *Engine) scalarVal(t types.Type, term string) Val {
	if isTime(t) {
		return TimeV{term}
	}
	b := t.Underlying().(*types.Basic)
	switch {
	case b.Info()&types.IsInteger != 0:
		return IntV{term}
	case b.Info()&types.IsBoolean != 0:
		return BoolV{term}
	case b.Info()&types.IsFloat != 0:
		return RealV{term}
	}
	return StrV{term}
}

func (e *Engine) flatten(t types.Type, prefix string, out *[]leaf) {
	if s, ok := e.scalarSort(t); ok {
		*out = append(*out, leaf{prefix + ".v", s})
		return
	}
	if isError(t) {
		*out = append(*out, leaf{prefix + ".e", "Int"})
		return
	}
	switch u := t.Underlying().(type) {
	case *types.Pointer:
		if s, ok := e.scalarSort(u.Elem()); ok {
			*out = append(*out, leaf{prefix + ".nil", "Bool"}, leaf{prefix + ".val", s})
			return
		}
	case *types.Struct:
		for i := 0; i < u.NumFields(); i++ {
			e.flatten(u.Field(i).Type(), fmt.Sprintf("%s.%d", prefix, i), out)
		}
		return
	}
	// anything else (interfaces, arrays, maps, pointers to structs, nested slices) is an opaque leaf
	*out = append(*out, leaf{prefix + ".u", "U"})
}

func (e *Engine) fresh(prefix, sortS string) string {
	e.nfresh++
	n := fmt.Sprintf("%s!%d", clean(prefix), e.nfresh)
	e.decls = append(e.decls, fmt.Sprintf("(declare-const %s %s)", n, sortS))
	return n
}

// share names a term so that later uses do not duplicate its text. sortS == "" means the integer sort.
func (e *Engine) share(term, sortS string) string {
	if len(term) < 160 {
		return term
	}
	if sortS == "" {
		if e.bv() {
			return term
		}
		sortS = "Int"
	}
	e.nfresh++
	n := fmt.Sprintf("d!%d", e.nfresh)
	e.decls = append(e.decls, fmt.Sprintf("(define-fun %s () %s %s)", n, sortS, term))
	return n
}

func (e *Engine) fact(t string) {
	if t != "true" {
		e.facts = append(e.facts, t)
	}
}

func (e *Engine) note(s string) {
	for _, n := range e.notes {
		if n == s {
			return
		}
	}
	e.notes = append(e.notes, s)
}

// srcKey names a source position by the text of its line, so that obligation names survive unrelated edits.
func (e *Engine) srcKey(pos token.Pos) string {
	if pos == token.NoPos {
		return "?"
	}
	p := e.fset.Position(pos)
	line := e.ctx.sourceLine(p.Filename, p.Line)
	line = strings.TrimSpace(line)
	if len(line) > 70 {
		line = line[:70]
	}
	return line
}

func (e *Engine) oblige(kind, label, reach, goal string, pos token.Pos) *Oblig {
	if e.pure == 0 && e.quiet == 0 && goal == "true" && reach != "false" && (kind == "ensures" || kind == "effect") {
		// syntactically true after simplification: nothing to send to a solver, but the clause counts as established
		// (it is entered in the baseline so that a later failure of the same clause is recognised)
		n := fnDisplayName(e.top) + "#" + kind + ":" + label
		e.trivial = append(e.trivial, n)
	}
	if e.pure > 0 || goal == "true" || reach == "false" {
		return nil
	}
	if e.quiet > 0 {
		// inside an inlined closure that is verified on its own: its obligations are assumed here, checked there
		e.fact(imp(reach, goal))
		return nil
	}
	name := fnDisplayName(e.top) + "#" + kind
	if label != "" {
		name += ":" + label
	}
	if kind == "overflow" || kind == "bounds" || kind == "nopanic" || kind == "requires" {
		name += ":" + e.srcKey(pos)
	}
	e.oblNames[name]++
	if n := e.oblNames[name]; n > 1 {
		name += fmt.Sprintf("#%d", n)
	}
	e.obls = append(e.obls, Oblig{Name: name, Kind: kind, Label: label, Reach: reach, Goal: goal, NFacts: len(e.facts), Pos: e.fset.Position(pos)})
	if kind != "ensures" && kind != "effect" && kind != "frame" {
		// once asserted, may be assumed downstream; the clauses of a postcondition are judged independently of each
		// other, so that each broken clause is reported (and replayed) on its own
		e.fact(imp(reach, goal))
	}
	return &e.obls[len(e.obls)-1]
}

func (e *Engine) newCell(t types.Type, name string) *Cell {
	e.ncell++
	return &Cell{Typ: t, Name: name, id: e.ncell}
}

func (e *Engine) zeroLeaf(l leaf) string {
	switch {
	case l.sort == "U":
		return "nilU"
	case l.sort == "Bool":
		if strings.HasSuffix(l.key, ".nil") {
			return "true"
		}
		return "false"
	case l.sort == "String":
		return "\"\""
	case l.sort == "Real":
		return "0.0"
	case strings.HasPrefix(l.sort, "(_ BitVec"):
		var w int
		fmt.Sscanf(l.sort, "(_ BitVec %d)", &w)
		return fmt.Sprintf("(_ bv0 %d)", w)
	}
	return "0"
}

func (e *Engine) newArr(st *State, elem types.Type, symbolic bool, name string) *Arr {
	a := &Arr{Elem: elem, Name: name}
	e.flatten(elem, "", &a.Leaves)
	e.ncell++
	a.id = e.ncell
	m := map[string]string{}
	for _, l := range a.Leaves {
		if symbolic {
			m[l.key] = e.fresh(name+strings.ReplaceAll(l.key, ".", "_"), e.arrSort(l.sort))
			continue
		}
		m[l.key] = "((as const " + e.arrSort(l.sort) + ") " + e.zeroLeaf(l) + ")"
	}
	if symbolic {
		init := map[string]string{}
		for k, v := range m {
			init[k] = v
		}
		e.inputArrs[a] = init
	}
	if st != nil {
		st.arrs[a] = m
	}
	return a
}

// arr returns the contents of array a in state st, falling back to the initial contents of a symbolic input array.
func (e *Engine) arr(st *State, a *Arr) map[string]string {
	if m, ok := st.arrs[a]; ok {
		return m
	}
	init, ok := e.inputArrs[a]
	if !ok {
		panic(unsupported{"array not in state: " + a.Name})
	}
	m := map[string]string{}
	for k, v := range init {
		m[k] = v
	}
	st.arrs[a] = m
	return m
}

// ---------- symbolic inputs ----------

func (e *Engine) opaque(name string) Val { return OpaqueV{e.fresh(name, "U")} }

// symbolic creates a fresh unconstrained value of type t (constrained to its machine range).
func (e *Engine) symbolic(st *State, t types.Type, name string) Val {
	if s, ok := e.scalarSort(t); ok {
		n := e.fresh(name, s)
		if isInteger(t) && !e.bv() {
			e.fact(intRange(t, n))
		}
		return e.scalarVal(t, n)
	}
	if isError(t) {
		n := e.fresh(name, "Int")
		e.fact("(>= " + n + " 0)")
		return ErrV{n}
	}
	switch u := t.Underlying().(type) {
	case *types.Slice:
		arr := e.newArr(st, u.Elem(), true, name)
		ln := e.fresh(name+"_len", e.idxSort())
		nl := e.fresh(name+"_nil", "Bool")
		if !e.bv() {
			e.fact("(and (>= " + ln + " 0) (<= " + ln + " 9223372036854775807))")
		}
		e.fact(imp(nl, eq(ln, e.lit(0))))
		return SliceV{Arr: arr, Off: e.lit(0), Len: ln, Nil: nl}
	case *types.Pointer:
		if _, ok := e.scalarSort(u.Elem()); ok {
			return OptV{Nil: e.fresh(name+"_nil", "Bool"), V: e.symbolic(st, u.Elem(), name+"_val"), Elem: u.Elem()}
		}
		if _, ok := u.Elem().Underlying().(*types.Struct); ok {
			return PtrV{Nil: e.fresh(name+"_nil", "Bool"), Elem: u.Elem(), Name: e.uniqSym(name)}
		}
		if _, ok := u.Elem().Underlying().(*types.Slice); ok && e.cfg.Effects && st != nil {
			// *[]T (optional slices): a possibly nil pointer to a variable holding an unknown slice
			c := e.newCell(u.Elem(), name+"_pointee")
			content := e.symbolic(st, u.Elem(), name+"_deref")
			st.cells[c] = content
			e.inputCells[c] = content
			return AddrV{Cell: c, Nil: e.fresh(name+"_nil", "Bool")}
		}
	case *types.Struct:
		return StructV{Typ: u, F: make([]Val, u.NumFields()), Sym: e.uniqSym(name)}
	case *types.Tuple:
		var rs TupleV
		for i := 0; i < u.Len(); i++ {
			rs = append(rs, e.symbolic(st, u.At(i).Type(), fmt.Sprintf("%s_%d", name, i)))
		}
		return rs
	}
	return e.opaque(name)
}

// uniqSym keeps the first use of a name as is (inputs are found by name at
// replay time) and makes later uses distinct: the name of a symbolic struct or
// pointer is its identity, and two results of calls to the same function must
// not denote the same object.
func (e *Engine) uniqSym(name string) string {
	if e.symUsed == nil {
		e.symUsed = map[string]int{}
	}
	e.symUsed[name]++
	if n := e.symUsed[name]; n > 1 {
		return fmt.Sprintf("%s!s%d", name, n)
	}
	return name
}

// field returns field i of a struct value; lazily symbolic fields are named
// deterministically so that every path sees the same symbol.
func (e *Engine) field(sv StructV, i int) Val {
	if sv.F[i] != nil {
		return sv.F[i]
	}
	key := sv.Sym + "_" + sv.Typ.Field(i).Name()
	if v, ok := e.named[key]; ok {
		return v
	}
	v := e.symbolic(e.inputState, sv.Typ.Field(i).Type(), key)
	e.named[key] = v
	return v
}

func (e *Engine) zero(st *State, t types.Type) Val {
	if s, ok := e.scalarSort(t); ok {
		switch {
		case isTime(t):
			return TimeV{"zeroTime"}
		case isInteger(t):
			return IntV{e.litT(0, t)}
		case s == "Bool":
			return BoolV{"false"}
		case s == "Real":
			return RealV{"0.0"}
		}
		return StrV{"\"\""}
	}
	if isError(t) {
		return ErrV{"0"}
	}
	switch u := t.Underlying().(type) {
	case *types.Slice:
		arr := e.newArr(st, u.Elem(), false, "z")
		return SliceV{Arr: arr, Off: e.lit(0), Len: e.lit(0), Nil: "true"}
	case *types.Pointer:
		if _, ok := e.scalarSort(u.Elem()); ok {
			return OptV{Nil: "true", V: e.zero(st, u.Elem()), Elem: u.Elem()}
		}
		if _, ok := u.Elem().Underlying().(*types.Struct); ok {
			return PtrV{Nil: "true", Elem: u.Elem(), Name: "nilptr"}
		}
	case *types.Struct:
		sv := StructV{Typ: u}
		for i := 0; i < u.NumFields(); i++ {
			sv.F = append(sv.F, e.zero(st, u.Field(i).Type()))
		}
		return sv
	}
	return OpaqueV{"nilU"}
}

// ---------- memory ----------

func (e *Engine) getPath(v Val, path []int) Val {
	for _, i := range path {
		sv, ok := v.(StructV)
		if !ok {
			return nil
		}
		v = e.field(sv, i)
	}
	return v
}

func (e *Engine) setPath(v Val, path []int, nv Val) Val {
	if len(path) == 0 {
		return nv
	}
	sv, ok := v.(StructV)
	if !ok {
		return v
	}
	nf := make([]Val, len(sv.F))
	for i := range sv.F {
		nf[i] = sv.F[i]
		if nf[i] == nil {
			nf[i] = e.field(sv, i)
		}
	}
	nf[path[0]] = e.setPath(nf[path[0]], path[1:], nv)
	return StructV{F: nf, Typ: sv.Typ}
}

func sel(arr, idx string) string { return "(select " + arr + " " + idx + ")" }

func (e *Engine) arrRead(st *State, a *Arr, idx string, t types.Type, prefix string) Val {
	m := e.arr(st, a)
	if _, ok := e.scalarSort(t); ok {
		return e.scalarVal(t, sel(m[prefix+".v"], idx))
	}
	if isError(t) {
		return ErrV{sel(m[prefix+".e"], idx)}
	}
	switch u := t.Underlying().(type) {
	case *types.Pointer:
		if _, ok := e.scalarSort(u.Elem()); ok {
			return OptV{Nil: sel(m[prefix+".nil"], idx), V: e.scalarVal(u.Elem(), sel(m[prefix+".val"], idx)), Elem: u.Elem()}
		}
	case *types.Struct:
		sv := StructV{Typ: u}
		for i := 0; i < u.NumFields(); i++ {
			sv.F = append(sv.F, e.arrRead(st, a, idx, u.Field(i).Type(), fmt.Sprintf("%s.%d", prefix, i)))
		}
		return sv
	}
	if t0, ok := m[prefix+".u"]; ok {
		return e.unbox(OpaqueV{sel(t0, idx)}, t)
	}
	panic(unsupported{"arrRead " + t.String()})
}

// unbox turns an opaque leaf read back into a typed placeholder where the type needs one.
func (e *Engine) unbox(o OpaqueV, t types.Type) Val {
	switch u := t.Underlying().(type) {
	case *types.Pointer:
		if _, ok := u.Elem().Underlying().(*types.Struct); ok {
			// pointer to struct stored in a container: identity only
			name := "boxed_" + clean(o.T)
			if e.boxedTerm == nil {
				e.boxedTerm = map[string]string{}
			}
			e.boxedTerm[name] = o.T
			return PtrV{Nil: eq(o.T, "nilU"), Elem: u.Elem(), Name: name}
		}
	}
	return o
}

func (e *Engine) arrWrite(st *State, a *Arr, idx string, t types.Type, prefix string, v Val) {
	m := e.arr(st, a)
	if _, ok := e.scalarSort(t); ok {
		m[prefix+".v"] = "(store " + m[prefix+".v"] + " " + idx + " " + termOf(v) + ")"
		return
	}
	if isError(t) {
		if ev, ok := v.(ErrV); ok {
			m[prefix+".e"] = "(store " + m[prefix+".e"] + " " + idx + " " + ev.T + ")"
			return
		}
	}
	switch u := t.Underlying().(type) {
	case *types.Pointer:
		o, isOpt := v.(OptV)
		if !isOpt {
			break
		}
		m[prefix+".nil"] = "(store " + m[prefix+".nil"] + " " + idx + " " + o.Nil + ")"
		if pv := e.optSnapshot(o, st); pv != nil {
			m[prefix+".val"] = "(store " + m[prefix+".val"] + " " + idx + " " + termOf(pv) + ")"
		}
		return
	case *types.Struct:
		if sv, ok := v.(StructV); ok {
			for i := 0; i < u.NumFields(); i++ {
				e.arrWrite(st, a, idx, u.Field(i).Type(), fmt.Sprintf("%s.%d", prefix, i), e.field(sv, i))
			}
			return
		}
	}
	if t0, ok := m[prefix+".u"]; ok {
		val := ""
		if ov, isO := v.(OpaqueV); isO {
			val = ov.T
		} else if pv, isP := v.(PtrV); isP && e.netTerm[pv.Name] != "" {
			val = ite(pv.Nil, "nilU", e.netTerm[pv.Name])
		} else if pv, isP := v.(PtrV); isP && e.boxedTerm[pv.Name] != "" {
			val = e.boxedTerm[pv.Name]
		} else if pv, isP := v.(PtrV); isP && pv.Nil == "true" {
			val = "nilU"
		} else {
			val = e.fresh("uval", "U")
			e.boxed[val] = v
		}
		m[prefix+".u"] = "(store " + t0 + " " + idx + " " + val + ")"
	}
}

func (e *Engine) rangeFacts(v Val, t types.Type) {
	if e.bv() {
		return
	}
	switch x := v.(type) {
	case IntV:
		if isInteger(t) {
			e.fact(intRange(t, x.T))
		}
	case OptV:
		if iv, ok := x.V.(IntV); ok && x.Cell == nil {
			e.fact(intRange(x.Elem, iv.T))
		}
	case StructV:
		for i, f := range x.F {
			if f != nil {
				e.rangeFacts(f, x.Typ.Field(i).Type())
			}
		}
	}
}

func (e *Engine) materialise(st *State, p PtrV, reach string, pos token.Pos) PtrV {
	if e.cfg.NoPanic {
		e.oblige("nopanic", "nil-deref", reach, not(p.Nil), pos)
	}
	if p.Cell == nil && strings.HasPrefix(p.Name, "mergedptr!") {
		// A pointer that may point to one of several objects is dereferenced through a stand-in object with unknown
		// contents. From now on the candidate objects are volatile (every read of them is unconstrained: they may be
		// written through the stand-in), and a direct write to a candidate forgets the stand-in. Sound, imprecise.
		if !e.cfg.Effects || len(p.Cands) == 0 {
			panic(unsupported{fmt.Sprintf("dereference of a pointer that may point to two different objects (effects=%v cands=%d %s)", e.cfg.Effects, len(p.Cands), p.Name)})
		}
		if e.mergedCell == nil {
			e.mergedCell = map[string]*Cell{}
			e.mergedOf = map[*Cell][]*Cell{}
		}
		c := e.mergedCell[p.Name]
		if c == nil {
			c = e.newCell(p.Elem, p.Name)
			e.mergedCell[p.Name] = c
			if stt, isStruct := p.Elem.Underlying().(*types.Struct); isStruct {
				e.inputCells[c] = StructV{Typ: stt, F: make([]Val, stt.NumFields()), Sym: clean(p.Name)}
			} else {
				panic(unsupported{"dereference of a merged non-struct pointer"})
			}
			for _, cand := range p.Cands {
				e.volatile[cand] = true
				e.mergedOf[cand] = append(e.mergedOf[cand], c)
			}
			e.note("pointer to one of several objects dereferenced through a stand-in object (candidates become volatile)")
		}
		p.Cell = c
	}
	if p.Cell == nil {
		c := e.ptrCell[p.Name]
		if c == nil {
			c = e.newCell(p.Elem, p.Name)
			e.ptrCell[p.Name] = c
		}
		p.Cell = c
	}
	if _, ok := st.cells[p.Cell]; !ok {
		init, ok := e.inputCells[p.Cell]
		if !ok {
			stt, isStruct := p.Elem.Underlying().(*types.Struct)
			if !isStruct {
				panic(unsupported{"materialise non-struct pointer " + p.Elem.String()})
			}
			init = StructV{Typ: stt, F: make([]Val, stt.NumFields()), Sym: p.Name}
			e.inputCells[p.Cell] = init
		}
		st.cells[p.Cell] = init
	}
	return p
}

func (e *Engine) load(st *State, addr Val, t types.Type, reach string, pos token.Pos) Val {
	switch a := addr.(type) {
	case AddrV:
		if a.Nil != "" && e.cfg.NoPanic {
			e.oblige("nopanic", "nil-deref", reach, not(a.Nil), pos)
		}
		if e.volatile[a.Cell] {
			return e.symbolic(st, t, a.Cell.Name+"_vol")
		}
		return e.getPath(st.cells[a.Cell], a.Path)
	case ElemAddrV:
		v := e.arrRead(st, a.Arr, a.Idx, fieldType(a.Arr.Elem, a.Path), pathKey(a.Path))
		if e.pure == 0 {
			e.rangeFacts(v, t)
		}
		return v
	case OptV:
		if e.cfg.NoPanic {
			e.oblige("nopanic", "nil-deref", reach, not(a.Nil), pos)
		}
		if a.Cell != nil && e.volatile[a.Cell] {
			return e.symbolic(st, t, a.Cell.Name+"_vol")
		}
		return e.optSnapshot(a, st)
	case PtrV:
		a = e.materialise(st, a, reach, pos)
		if e.volatile[a.Cell] {
			return e.symbolic(st, t, a.Cell.Name+"_vol")
		}
		return st.cells[a.Cell]
	case OpaqueV:
		// a pointer to a value that is itself opaque (*ulid.ULID, *[16]byte ...): reading it twice gives the same
		// value as long as the function never writes through such a pointer (stores through untracked pointers are
		// dropped, so after one the reads are unconstrained again)
		if _, isArr := t.Underlying().(*types.Array); isArr && !e.opaqueStore && a.T != "nilU" {
			e.declUF("uf_deref", "(U) U")
			e.opaqueDerefUsed = true
			return OpaqueV{"(uf_deref " + a.T + ")"}
		}
	}
	return nil
}

func (e *Engine) store(st *State, addr Val, v Val, reach string, pos token.Pos) {
	switch a := addr.(type) {
	case AddrV:
		st.cells[a.Cell] = e.setPath(st.cells[a.Cell], a.Path, v)
		e.forgetStandIns(st, a.Cell)
	case ElemAddrV:
		e.arrWrite(st, a.Arr, a.Idx, fieldType(a.Arr.Elem, a.Path), pathKey(a.Path), v)
	case OptV:
		if e.cfg.NoPanic {
			e.oblige("nopanic", "nil-deref", reach, not(a.Nil), pos)
		}
		if a.Cell == nil {
			panic(unsupported{"store through value-merged optional"})
		}
		st.cells[a.Cell] = v
	case PtrV:
		a = e.materialise(st, a, reach, pos)
		st.cells[a.Cell] = v
		e.forgetStandIns(st, a.Cell)
	case OpaqueV:
		e.note("store through untracked pointer dropped at " + e.fset.Position(pos).String())
		if e.opaqueDerefUsed {
			panic(unsupported{"store through an untracked pointer after reads through such pointers were treated as stable"})
		}
		e.opaqueStore = true
	}
}

// forgetStandIns: a write to an object that a merged pointer may point to is visible through the merged pointer.
func (e *Engine) forgetStandIns(st *State, c *Cell) {
	for _, m := range e.mergedOf[c] {
		st.cells[m] = e.symbolic(st, m.Typ, m.Name+"_alias")
		delete(e.inputCells, m)
	}
}

// ---------- CFG helpers ----------

type loopInfo struct {
	head   *ssa.BasicBlock
	blocks map[*ssa.BasicBlock]bool
	ord    int
	id     int // identity of this dynamic loop in the trace (0: not yet assigned)
}

func findLoops(fn *ssa.Function) map[*ssa.BasicBlock]*loopInfo {
	loops := map[*ssa.BasicBlock]*loopInfo{}
	for _, b := range fn.Blocks {
		for _, s := range b.Succs {
			if s.Dominates(b) {
				li := loops[s]
				if li == nil {
					li = &loopInfo{head: s, blocks: map[*ssa.BasicBlock]bool{s: true}}
					loops[s] = li
				}
				stack := []*ssa.BasicBlock{b}
				for len(stack) > 0 {
					x := stack[len(stack)-1]
					stack = stack[:len(stack)-1]
					if li.blocks[x] {
						continue
					}
					li.blocks[x] = true
					stack = append(stack, x.Preds...)
				}
			}
		}
	}
	// ordinals: source order of the loop heads (block index order follows source order in go/ssa)
	var heads []*ssa.BasicBlock
	for h := range loops {
		heads = append(heads, h)
	}
	sort.Slice(heads, func(i, j int) bool { return heads[i].Index < heads[j].Index })
	for i, h := range heads {
		loops[h].ord = i
	}
	return loops
}

func hasLoops(fn *ssa.Function) bool {
	for _, b := range fn.Blocks {
		for _, s := range b.Succs {
			if s.Dominates(b) {
				return true
			}
		}
	}
	return false
}

// rpo returns the blocks in reverse post-order of the CFG without back edges, in the order a reader meets them: the
// body of a loop before what follows the loop, the first branch of a conditional before the second (successors are
// visited last-first, and a successor that leaves the innermost loop of the block first of all). The order of the
// recorded calls - what `before` and `after` mean in effect clauses - is the order in which blocks are executed.
func rpo(fn *ssa.Function) []*ssa.BasicBlock {
	var loops map[*ssa.BasicBlock]*loopInfo
	if hasLoops(fn) {
		loops = findLoops(fn)
	}
	innermost := func(b *ssa.BasicBlock) *loopInfo {
		var best *loopInfo
		for _, li := range loops {
			if li.blocks[b] && (best == nil || len(li.blocks) < len(best.blocks)) {
				best = li
			}
		}
		return best
	}
	seen := map[*ssa.BasicBlock]bool{}
	var post []*ssa.BasicBlock
	var dfs func(b *ssa.BasicBlock)
	dfs = func(b *ssa.BasicBlock) {
		seen[b] = true
		succs := append([]*ssa.BasicBlock(nil), b.Succs...)
		// visit order: last successor first ...
		for i, j := 0, len(succs)-1; i < j; i, j = i+1, j-1 {
			succs[i], succs[j] = succs[j], succs[i]
		}
		// ... but successors that leave the innermost loop of b before those that stay in it
		if li := innermost(b); li != nil {
			sort.SliceStable(succs, func(i, j int) bool { return !li.blocks[succs[i]] && li.blocks[succs[j]] })
		}
		for _, s := range succs {
			if !seen[s] && !s.Dominates(b) {
				dfs(s)
			}
		}
		post = append(post, b)
	}
	dfs(fn.Blocks[0])
	for i, j := 0, len(post)-1; i < j; i, j = i+1, j-1 {
		post[i], post[j] = post[j], post[i]
	}
	return post
}

// ---------- execution ----------

type deferRec struct {
	d     *ssa.Defer
	guard string
	args  []Val
	fnv   Val
}

type frame struct {
	fn     *ssa.Function
	env    map[ssa.Value]Val
	allocs map[*Cell]*ssa.BasicBlock
	named  map[string]*Cell
	loops  map[*ssa.BasicBlock]*loopInfo
	namedAll map[string][]*Cell // every cell allocated under a name, in allocation order (shadowed / re-declared locals)
	defers []deferRec
	invs   map[*ssa.BasicBlock]func(*State) string
	top    bool
}

func (e *Engine) get(f *frame, st *State, v ssa.Value) Val {
	switch c := v.(type) {
	case *ssa.Const:
		return e.constVal(st, c)
	case *ssa.Function:
		return FuncV{Fn: c}
	case *ssa.Global:
		return OpaqueV{"glob_" + clean(c.String())}
	case *ssa.Builtin:
		return OpaqueV{"nilU"}
	}
	if x, ok := f.env[v]; ok {
		return x
	}
	panic(unsupported{"no value for " + v.Name() + " in " + f.fn.Name()})
}

func (e *Engine) constVal(st *State, c *ssa.Const) Val {
	if c.Value == nil {
		return e.zero(st, c.Type())
	}
	switch c.Value.Kind() {
	case constant.Int:
		if isFloat(c.Type()) {
			return RealV{c.Value.ExactString() + ".0"}
		}
		if n, ok := constant.Int64Val(c.Value); ok {
			return IntV{e.litT(n, c.Type())}
		}
		if u, ok := constant.Uint64Val(c.Value); ok {
			if e.bv() {
				return IntV{fmt.Sprintf("(_ bv%d %d)", u, intWidth(c.Type()))}
			}
			return IntV{fmt.Sprintf("%d", u)}
		}
	case constant.Bool:
		if constant.BoolVal(c.Value) {
			return BoolV{"true"}
		}
		return BoolV{"false"}
	case constant.String:
		return StrV{smtString(constant.StringVal(c.Value))}
	case constant.Float:
		if isFloat(c.Type()) {
			r := constant.ToFloat(c.Value)
			num, den := constant.Num(r), constant.Denom(r)
			if num.Kind() == constant.Int && den.Kind() == constant.Int {
				ns := num.ExactString()
				if strings.HasPrefix(ns, "-") {
					return RealV{"(- (/ " + ns[1:] + ".0 " + den.ExactString() + ".0))"}
				}
				return RealV{"(/ " + ns + ".0 " + den.ExactString() + ".0)"}
			}
		}
	}
	return e.symbolic(st, c.Type(), "const")
}

func nilCmp(op token.Token, nilTerm string) Val {
	if op == token.EQL {
		return BoolV{nilTerm}
	}
	return BoolV{not(nilTerm)}
}

func pow2(n int64) string {
	r := new(strings.Builder)
	v := constant.Shift(constant.MakeInt64(1), token.SHL, uint(n))
	r.WriteString(v.ExactString())
	return r.String()
}

func litInt(t string) (int64, bool) {
	var n int64
	if _, err := fmt.Sscanf(t, "%d", &n); err == nil && fmt.Sprint(n) == t {
		return n, true
	}
	return 0, false
}

func (e *Engine) intBinop(op token.Token, a, b string, t types.Type, yT types.Type) (Val, bool) {
	if e.bv() {
		return e.bvBinop(op, a, b, t, yT)
	}
	switch op {
	case token.ADD:
		return IntV{"(+ " + a + " " + b + ")"}, true
	case token.SUB:
		return IntV{"(- " + a + " " + b + ")"}, true
	case token.MUL:
		return IntV{"(* " + a + " " + b + ")"}, true
	case token.QUO:
		// Go truncates toward zero; SMT div is Euclidean.
		return IntV{ite("(>= "+a+" 0)", "(div "+a+" "+b+")", "(- (div (- "+a+") "+b+"))")}, true
	case token.REM:
		q := ite("(>= "+a+" 0)", "(div "+a+" "+b+")", "(- (div (- "+a+") "+b+"))")
		return IntV{"(- " + a + " (* " + b + " " + q + "))"}, true
	case token.SHL:
		if n, ok := litInt(b); ok && n >= 0 && n < 64 {
			return IntV{"(* " + a + " " + pow2(n) + ")"}, true
		}
	case token.SHR:
		if n, ok := litInt(b); ok && n >= 0 && n < 64 {
			return IntV{"(div " + a + " " + pow2(n) + ")"}, true
		}
	case token.AND:
		if n, ok := litInt(b); ok && n > 0 && (n&(n+1)) == 0 {
			return IntV{"(mod " + a + " " + fmt.Sprint(n+1) + ")"}, true
		}
	case token.LSS:
		return BoolV{"(< " + a + " " + b + ")"}, true
	case token.LEQ:
		return BoolV{"(<= " + a + " " + b + ")"}, true
	case token.GTR:
		return BoolV{"(> " + a + " " + b + ")"}, true
	case token.GEQ:
		return BoolV{"(>= " + a + " " + b + ")"}, true
	case token.EQL:
		return BoolV{eq(a, b)}, true
	case token.NEQ:
		return BoolV{not(eq(a, b))}, true
	}
	return nil, false
}

func (e *Engine) bvBinop(op token.Token, a, b string, t types.Type, yT types.Type) (Val, bool) {
	signed := !isUnsigned(t)
	bin := func(o string) (Val, bool) { return IntV{"(" + o + " " + a + " " + b + ")"}, true }
	cmp := func(o string) (Val, bool) { return BoolV{"(" + o + " " + a + " " + b + ")"}, true }
	switch op {
	case token.ADD:
		return bin("bvadd")
	case token.SUB:
		return bin("bvsub")
	case token.MUL:
		return bin("bvmul")
	case token.AND:
		return bin("bvand")
	case token.OR:
		return bin("bvor")
	case token.XOR:
		return bin("bvxor")
	case token.AND_NOT:
		return IntV{"(bvand " + a + " (bvnot " + b + "))"}, true
	case token.QUO:
		if signed {
			return bin("bvsdiv")
		}
		return bin("bvudiv")
	case token.REM:
		if signed {
			return bin("bvsrem")
		}
		return bin("bvurem")
	case token.SHL, token.SHR:
		// the shift count may have another width: resize it to the width of the left operand
		wa, wb := intWidth(t), intWidth(yT)
		sb := b
		if wb < wa {
			sb = fmt.Sprintf("((_ zero_extend %d) %s)", wa-wb, b)
		} else if wb > wa {
			// counts >= width give 0 (or sign fill) in Go as in SMT-LIB when saturated
			sb = fmt.Sprintf("(ite (bvuge %s (_ bv%d %d)) (_ bv%d %d) ((_ extract %d 0) %s))", b, wa, wb, wa, wa, wa-1, b)
		}
		o := "bvshl"
		if op == token.SHR {
			o = "bvlshr"
			if signed {
				o = "bvashr"
			}
		}
		return IntV{"(" + o + " " + a + " " + sb + ")"}, true
	case token.LSS:
		if signed {
			return cmp("bvslt")
		}
		return cmp("bvult")
	case token.LEQ:
		if signed {
			return cmp("bvsle")
		}
		return cmp("bvule")
	case token.GTR:
		if signed {
			return cmp("bvsgt")
		}
		return cmp("bvugt")
	case token.GEQ:
		if signed {
			return cmp("bvsge")
		}
		return cmp("bvuge")
	case token.EQL:
		return BoolV{eq(a, b)}, true
	case token.NEQ:
		return BoolV{not(eq(a, b))}, true
	}
	return nil, false
}

func (e *Engine) binop(st *State, op token.Token, x, y Val, t types.Type, xT, yT types.Type) Val {
	cmp := func(a, b string) Val {
		if op == token.EQL {
			return BoolV{eq(a, b)}
		}
		return BoolV{not(eq(a, b))}
	}
	isCmp := op == token.EQL || op == token.NEQ
	switch a := x.(type) {
	case IntV:
		b, ok := y.(IntV)
		if !ok {
			break
		}
		if v, ok := e.intBinop(op, a.T, b.T, xT, yT); ok {
			return v
		}
	case RealV:
		b, ok := y.(RealV)
		if !ok {
			break
		}
		switch op {
		case token.ADD:
			return RealV{"(+ " + a.T + " " + b.T + ")"}
		case token.SUB:
			return RealV{"(- " + a.T + " " + b.T + ")"}
		case token.MUL:
			return RealV{"(* " + a.T + " " + b.T + ")"}
		case token.QUO:
			return RealV{"(/ " + a.T + " " + b.T + ")"}
		case token.LSS:
			return BoolV{"(< " + a.T + " " + b.T + ")"}
		case token.LEQ:
			return BoolV{"(<= " + a.T + " " + b.T + ")"}
		case token.GTR:
			return BoolV{"(> " + a.T + " " + b.T + ")"}
		case token.GEQ:
			return BoolV{"(>= " + a.T + " " + b.T + ")"}
		case token.EQL, token.NEQ:
			return cmp(a.T, b.T)
		}
	case TimeV:
		if b, ok := y.(TimeV); ok && isCmp {
			return cmp(a.T, b.T)
		}
	case BoolV:
		if b, ok := y.(BoolV); ok {
			if isCmp {
				return cmp(a.T, b.T)
			}
			switch op {
			case token.AND, token.LAND:
				return BoolV{and(a.T, b.T)}
			case token.OR, token.LOR:
				return BoolV{or(a.T, b.T)}
			}
		}
	case StrV:
		if b, ok := y.(StrV); ok {
			if isCmp {
				return cmp(a.T, b.T)
			}
			switch op {
			case token.ADD:
				return StrV{"(str.++ " + a.T + " " + b.T + ")"}
			case token.LSS:
				return BoolV{"(str.< " + a.T + " " + b.T + ")"}
			case token.LEQ:
				return BoolV{"(str.<= " + a.T + " " + b.T + ")"}
			case token.GTR:
				return BoolV{"(str.< " + b.T + " " + a.T + ")"}
			case token.GEQ:
				return BoolV{"(str.<= " + b.T + " " + a.T + ")"}
			}
		}
	case ErrV:
		if b, ok := y.(ErrV); ok && isCmp {
			return cmp(a.T, b.T)
		}
	case OptV:
		if b, ok := y.(OptV); ok && isCmp {
			if b.Nil == "true" {
				return nilCmp(op, a.Nil)
			}
			if a.Nil == "true" {
				return nilCmp(op, b.Nil)
			}
			if a.Cell != nil && a.Cell == b.Cell {
				return cmp(a.Nil, b.Nil)
			}
			// the same symbolic input optional (its nil flag is a symbol of its own): same pointer
			if a.Cell == nil && b.Cell == nil && a.Nil == b.Nil && a.Nil != "true" && a.Nil != "false" && !strings.HasPrefix(a.Nil, "(") {
				return nilCmp(op, "true")
			}
		}
	case PtrV:
		if b, ok := y.(PtrV); ok && isCmp {
			if b.Nil == "true" {
				return nilCmp(op, a.Nil)
			}
			if a.Nil == "true" {
				return nilCmp(op, b.Nil)
			}
			if a.Cell != nil && a.Cell == b.Cell {
				return cmp(a.Nil, b.Nil)
			}
			// the nil flag of a symbolic input pointer is a symbol of its own: same symbol, same pointer
			if a.Nil == b.Nil && a.Nil != "true" && a.Nil != "false" && !strings.HasPrefix(a.Nil, "(") && a.Name == b.Name {
				return nilCmp(op, "true")
			}
			// two snapshots of the same pointer (taken at two call sites)
			if oa, ok := e.snapOrigin[a.Cell]; ok && a.Cell != nil {
				if ob, ok := e.snapOrigin[b.Cell]; ok && b.Cell != nil && oa == ob {
					return cmp(a.Nil, b.Nil)
				}
			}
			// a snapshot of a pointer compared with that pointer itself (an argument that is a result of an earlier call)
			originOf := func(p PtrV) string {
				if p.Cell != nil {
					if o, ok := e.snapOrigin[p.Cell]; ok {
						return o
					}
					if p.Name != "" {
						return p.Name // names are identities: parameters, allocations (name#id), merged objects (a|b)
					}
					return fmt.Sprintf("cell/%d", p.Cell.id)
				}
				return p.Name
			}
			if oa, ob := originOf(a), originOf(b); oa != "" && oa == ob && oa != "snap" && !strings.HasPrefix(oa, "mergedptr!") {
				return cmp(a.Nil, b.Nil)
			}
			// pointers read from containers are identified by the opaque term they were read as
			ta, okA := e.boxedTerm[a.Name]
			tb, okB := e.boxedTerm[b.Name]
			if okA && okB {
				return cmp(ta, tb)
			}
			if a.Name == b.Name && a.Cell == b.Cell {
				return cmp(a.Nil, b.Nil)
			}
		}
	case SliceV:
		if b, ok := y.(SliceV); ok && isCmp {
			if b.Nil == "true" {
				return nilCmp(op, a.Nil)
			}
			if a.Nil == "true" {
				return nilCmp(op, b.Nil)
			}
		}
	case MapV:
		if b, ok := y.(MapV); ok && isCmp {
			if b.Nil == "true" {
				return nilCmp(op, a.Nil)
			}
			if a.Nil == "true" {
				return nilCmp(op, b.Nil)
			}
		}
	case FuncV:
		if _, ok := y.(OpaqueV); ok && isCmp { // f == nil
			if a.Nil != "" {
				return nilCmp(op, a.Nil)
			}
			return nilCmp(op, "false")
		}
	case OpaqueV:
		switch b := y.(type) {
		case OpaqueV:
			if isCmp {
				return cmp(a.T, b.T)
			}
		case FuncV:
			if isCmp {
				if b.Nil != "" {
					return nilCmp(op, b.Nil)
				}
				return nilCmp(op, "false")
			}
		case PtrV:
			if isCmp && a.T == "nilU" {
				return nilCmp(op, b.Nil)
			}
		}
	case StructV:
		if b, ok := y.(StructV); ok && isCmp {
			ta, _ := e.flatTerms(st, a)
			tb, _ := e.flatTerms(st, b)
			if len(ta) == len(tb) {
				var cs []string
				for i := range ta {
					cs = append(cs, eq(ta[i], tb[i]))
				}
				if op == token.EQL {
					return BoolV{and(cs...)}
				}
				return BoolV{not(and(cs...))}
			}
		}
	}
	if pv, ok := x.(PtrV); ok && isCmp {
		if ov, ok := y.(OpaqueV); ok && ov.T == "nilU" {
			return nilCmp(op, pv.Nil)
		}
	}
	// address of a variable or of a field (&x, &s.f) compared with nil: never nil
	if isCmp {
		_, xa := x.(AddrV)
		_, ya := y.(AddrV)
		isNil := func(v Val) bool {
			switch o := v.(type) {
			case OptV:
				return o.Nil == "true"
			case PtrV:
				return o.Nil == "true"
			case OpaqueV:
				return o.T == "nilU"
			}
			return false
		}
		if xa && isNil(y) || ya && isNil(x) {
			n := "false"
			if av, ok := x.(AddrV); ok && xa && av.Nil != "" {
				n = av.Nil
			}
			if av, ok := y.(AddrV); ok && ya && !xa && av.Nil != "" {
				n = av.Nil
			}
			return nilCmp(op, n)
		}
	}
	// pointer into a slice (&s[i]) compared with nil
	if isCmp {
		ea, isEA := x.(ElemAddrV)
		other := y
		if !isEA {
			ea, isEA = y.(ElemAddrV)
			other = x
		}
		if isEA {
			isNilOther := false
			switch o := other.(type) {
			case PtrV:
				isNilOther = o.Nil == "true"
			case OpaqueV:
				isNilOther = o.T == "nilU"
			}
			if isNilOther {
				n := ea.Nil
				if n == "" {
					n = "false"
				}
				return nilCmp(op, n)
			}
		}
	}
	debugf("binop fallback: %v on %T and %T (%v, %v) %+v %+v", op, x, y, xT, yT, x, y)
	return e.symbolic(st, t, "binop")
}

// flatTerms lists the SMT terms (and sorts) a value consists of, in a canonical order.
func (e *Engine) flatTerms(st *State, v Val) (terms []string, sorts []string) {
	switch x := v.(type) {
	case IntV:
		return []string{x.T}, []string{"Int"}
	case ErrV:
		return []string{x.T}, []string{"Int"}
	case TimeV:
		return []string{x.T}, []string{"Int"}
	case BoolV:
		return []string{x.T}, []string{"Bool"}
	case StrV:
		return []string{x.T}, []string{"String"}
	case RealV:
		return []string{x.T}, []string{"Real"}
	case OpaqueV:
		return []string{x.T}, []string{"U"}
	case StructV:
		for i := range x.F {
			t, s := e.flatTerms(st, e.field(x, i))
			terms, sorts = append(terms, t...), append(sorts, s...)
		}
		return
	case OptV:
		terms, sorts = []string{x.Nil}, []string{"Bool"}
		if pv := e.optSnapshot(x, st); pv != nil {
			t, s := e.flatTerms(st, pv)
			terms, sorts = append(terms, t...), append(sorts, s...)
		}
		return
	case PtrV:
		return []string{x.Nil}, []string{"Bool"}
	case SnapPtr:
		terms, sorts = []string{x.Nil}, []string{"Bool"}
		if x.Content != nil {
			t, s := e.flatTerms(st, x.Content)
			terms, sorts = append(terms, t...), append(sorts, s...)
		}
		return
	case SliceV:
		if x.Arr == nil {
			return []string{x.Len}, []string{e.idxSort()}
		}
		m := e.arr(st, x.Arr)
		terms, sorts = []string{x.Off, x.Len, x.Nil}, []string{e.idxSort(), e.idxSort(), "Bool"}
		for _, l := range x.Arr.Leaves {
			terms, sorts = append(terms, m[l.key]), append(sorts, e.arrSort(l.sort))
		}
		return
	}
	return nil, nil
}

// mergeAt merges the incoming states of block b; a failure names the branch that governs the join.
func (e *Engine) mergeAt(b *ssa.BasicBlock, ins []guarded) *State {
	defer func() {
		if r := recover(); r != nil {
			if mf, ok := r.(mergeFail); ok && mf.split == nil {
				for d := b.Idom(); d != nil; d = d.Idom() {
					if ifi, ok := d.Instrs[len(d.Instrs)-1].(*ssa.If); ok {
						if _, forced := e.forced[ifi]; !forced {
							mf.split = ifi
							break
						}
					}
				}
				panic(mf)
			}
			panic(r)
		}
	}()
	return e.mergeStates(ins)
}

type retInfo struct {
	reach string
	vals  []Val
	st    *State
}

type edge struct {
	to *ssa.BasicBlock
	g  string
}

// execFunc runs fn from state st0 (not modified) under reachability condition reach0.
// It returns the merged results, the merged exit state and the condition under which fn returns.
func (e *Engine) execFunc(fn *ssa.Function, args []Val, bind []Val, st0 *State, reach0 string, top bool) ([]Val, *State, string) {
	if fn.Blocks == nil {
		panic(unsupported{"no body: " + fn.String()})
	}
	if fn.Recover != nil {
		e.note("recover block of " + fn.Name() + " not modelled (panics are obligations, not control flow)")
	}
	f := &frame{fn: fn, env: map[ssa.Value]Val{}, named: map[string]*Cell{}, namedAll: map[string][]*Cell{}, invs: map[*ssa.BasicBlock]func(*State) string{}, allocs: map[*Cell]*ssa.BasicBlock{}, top: top}
	if len(args) != len(fn.Params) {
		panic(unsupported{fmt.Sprintf("arity mismatch calling %s: %d args for %d params", fn.Name(), len(args), len(fn.Params))})
	}
	if top && e.pure == 0 {
		e.topFrame = f
	}
	for i, p := range fn.Params {
		f.env[p] = args[i]
	}
	for i, fv := range fn.FreeVars {
		if i < len(bind) {
			f.env[fv] = bind[i]
		}
	}
	var loops map[*ssa.BasicBlock]*loopInfo
	if hasLoops(fn) {
		if e.pure > 0 {
			panic(unsupported{"loop in spec function " + fn.String()})
		}
		loops = findLoops(fn)
		f.loops = loops
	}
	in := map[*ssa.BasicBlock][]guarded{fn.Blocks[0]: {{g: reach0, s: st0}}}
	var rets []retInfo
	order := rpo(fn)
	// Unrolling: a range loop without invariant over a slice whose length is a literal (a table written in the
	// function) is executed copy by copy in non-effect mode: a complete treatment, no bound involved.
	var curUnroll *ssa.BasicBlock
	var backIns []guarded
	noUnroll := map[*ssa.BasicBlock]bool{}
	var process func(b *ssa.BasicBlock) int
	process = func(b *ssa.BasicBlock) int {
		ins := in[b]
		var gs []string
		for _, x := range ins {
			gs = append(gs, x.g)
		}
		reach := or(gs...)
		if reach == "false" {
			return -1
		}
		if len(ins) > 1 {
			reach = e.share(reach, "Bool")
		}
		st := e.mergeAt(b, ins)
		if li := loops[b]; li != nil && curUnroll != b {
			if n, ok := e.constTrip(f, st, li, loops, top); ok && !noUnroll[b] {
				return n
			}
			e.enterLoop(f, st, li, reach, top)
		}
		inLoopBlock := false
		nPushed := 0
		var around []*loopInfo
		for _, li := range loops {
			if li.blocks[b] {
				around = append(around, li)
			}
		}
		sort.Slice(around, func(i, j int) bool { return len(around[i].blocks) > len(around[j].blocks) }) // outermost first
		for _, li := range around {
			inLoopBlock = true
			if li.id == 0 {
				e.nLoopIDs++
				li.id = e.nLoopIDs
			}
			e.loopStack = append(e.loopStack, li.id)
			nPushed++
		}
		if inLoopBlock {
			e.inLoop++
		}
		cur := reach
		var nextEdges []edge
		aborted := false
	instrs:
		for _, instr := range b.Instrs {
			switch x := instr.(type) {
			case *ssa.Jump:
				nextEdges = append(nextEdges, edge{b.Succs[0], cur})
			case *ssa.If:
				c := termOf(e.get(f, st, x.Cond))
				if dir, ok := e.forced[x]; ok {
					if dir {
						nextEdges = append(nextEdges, edge{b.Succs[0], and(cur, c)})
					} else {
						nextEdges = append(nextEdges, edge{b.Succs[1], and(cur, not(c))})
					}
					break
				}
				c = e.share(c, "Bool")
				nextEdges = append(nextEdges, edge{b.Succs[0], and(cur, c)}, edge{b.Succs[1], and(cur, not(c))})
			case *ssa.Return:
				var rs []Val
				for _, r := range x.Results {
					rs = append(rs, e.get(f, st, r))
				}
				rets = append(rets, retInfo{cur, rs, st})
				if f.top && e.pure == 0 && e.fc != nil && e.fc.usesReturns() {
					// pseudo-event: the function under contract returns here
					e.curState = st
					e.record(Event{Guard: cur, Callee: "<returns>", Res: rs, Pos: x.Pos()})
				}
			case *ssa.Panic:
				if e.cfg.NoPanic {
					e.oblige("nopanic", "explicit-panic", cur, "false", x.Pos())
				}
			case *ssa.Call:
				v, nst, nreach := e.doCommon(f, st, &x.Call, cur, x.Pos(), x)
				f.env[x] = v
				st, cur = nst, nreach
				if cur == "false" {
					aborted = true
					break instrs
				}
			case *ssa.Defer:
				rec := deferRec{d: x, guard: cur}
				for _, a := range x.Call.Args {
					rec.args = append(rec.args, e.get(f, st, a))
				}
				if !x.Call.IsInvoke() {
					if _, isB := x.Call.Value.(*ssa.Builtin); !isB {
						rec.fnv = e.get(f, st, x.Call.Value)
					}
				} else {
					rec.fnv = e.get(f, st, x.Call.Value)
				}
				f.defers = append(f.defers, rec)
			case *ssa.RunDefers:
				for i := len(f.defers) - 1; i >= 0; i-- {
					d := f.defers[i]
					if d.d.Block().Dominates(b) {
						_, nst, nreach := e.doCall(f, st, &d.d.Call, d.args, d.fnv, cur, d.d.Pos(), nil)
						st, cur = nst, nreach
						continue
					}
					// conditionally registered defer
					g := and(cur, d.guard)
					if g == "false" {
						continue
					}
					before := st.clone()
					_, nst, _ := e.doCall(f, st, &d.d.Call, d.args, d.fnv, g, d.d.Pos(), nil)
					st = e.mergeStates([]guarded{{g: d.guard, s: nst}, {g: "true", s: before}})
				}
			default:
				e.step(f, &st, b, ins, instr, cur)
			}
		}
		if inLoopBlock {
			e.inLoop--
		}
		e.loopStack = e.loopStack[:len(e.loopStack)-nPushed]
		if aborted {
			return -1
		}
		for _, ne := range nextEdges {
			if ne.g == "false" {
				continue
			}
			if ne.to == curUnroll && ne.to.Dominates(b) { // back edge of the loop being unrolled: input of the next copy
				backIns = append(backIns, guarded{g: e.share(ne.g, "Bool"), s: st, from: b})
				continue
			}
			if ne.to.Dominates(b) { // back edge
				if f.top && e.pure == 0 {
					// pseudo-event: the loop goes on to its next iteration (effect clauses can forbid that after a call)
					e.curState = st
					if li := loops[ne.to]; li != nil && li.id == 0 {
						e.nLoopIDs++
						li.id = e.nLoopIDs
					}
					e.record(Event{Guard: ne.g, Callee: "<loop-continues>", LoopID: loops[ne.to].id, LoopOrd: loops[ne.to].ord, Pos: b.Instrs[len(b.Instrs)-1].Pos()})
				}
				if ic, ok := f.invs[ne.to]; ok {
					e.oblige("inv-preserved", fmt.Sprintf("loop%d", loops[ne.to].ord), ne.g, ic(st), b.Instrs[len(b.Instrs)-1].Pos())
				}
				continue
			}
			in[ne.to] = append(in[ne.to], guarded{g: e.share(ne.g, "Bool"), s: st, from: b})
		}
		return -1
	}
	done := map[*ssa.BasicBlock]bool{}
	for _, b := range order {
		if done[b] {
			continue
		}
		n := process(b)
		if n < 0 {
			continue
		}
		// b is the head of a loop with exactly n iterations
		li := loops[b]
		var region []*ssa.BasicBlock
		for _, rb := range order {
			if li.blocks[rb] || dominatedByBody(li, rb) {
				region = append(region, rb)
			}
		}
		e.note(fmt.Sprintf("loop %d of %s has no invariant and ranges over a table of %d elements: unrolled completely", li.ord, fn.Name(), n))
		curUnroll = b
		for k := 0; k <= n; k++ {
			backIns = nil
			for _, rb := range region {
				if process(rb) >= 0 {
					panic(unsupported{"nested constant-length loop inside an unrolled loop"})
				}
			}
			for _, rb := range region {
				delete(in, rb)
			}
			if len(backIns) == 0 {
				break
			}
			in[b] = backIns
		}
		// after n+1 evaluations of the head the hidden index has reached the literal length: no state continues
		delete(in, b)
		curUnroll = nil
		for _, rb := range region {
			done[rb] = true
		}
	}
	if len(rets) == 0 {
		return nil, st0, "false"
	}
	// merge returns
	var gs []guarded
	var rg []string
	for _, r := range rets {
		gs = append(gs, guarded{g: r.reach, s: r.st})
		rg = append(rg, r.reach)
	}
	out := e.mergeStates(gs)
	vals := rets[len(rets)-1].vals
	for i := len(rets) - 2; i >= 0; i-- {
		nv := make([]Val, len(vals))
		for k := range vals {
			nv[k] = e.mergeVal(rets[i].reach, rets[i].vals[k], vals[k], rets[i].st, out, "ret")
		}
		vals = nv
	}
	return vals, out, e.share(or(rg...), "Bool")
}

// dominatedByBody: b lies outside the loop but is reached only through a body block of it (an early return, the
// block after a break out of an inner construct): its temporaries belong to one iteration.
func dominatedByBody(li *loopInfo, b *ssa.BasicBlock) bool {
	if li.blocks[b] {
		return false
	}
	for x := range li.blocks {
		if x != li.head && x.Dominates(b) {
			return true
		}
	}
	return false
}

// constTrip recognises a range loop over a slice or array whose length is a literal at the loop head, for loops
// without invariant of functions that are not in effect mode (there such loops are summarised).
func (e *Engine) constTrip(f *frame, st *State, li *loopInfo, loops map[*ssa.BasicBlock]*loopInfo, top bool) (int, bool) {
	if e.cfg.Effects || e.pure > 0 {
		return 0, false
	}
	if top && e.fc != nil && len(e.fc.invFuncs(li.ord)) > 0 {
		return 0, false
	}
	for h, other := range loops { // innermost loops only
		if h != li.head && li.blocks[h] {
			_ = other
			return 0, false
		}
	}
	hasIdx := false
	for _, ins := range li.head.Instrs {
		if s, ok := ins.(*ssa.Store); ok {
			if al, ok := s.Addr.(*ssa.Alloc); ok && al.Comment == "rangeindex" {
				hasIdx = true
			}
		}
	}
	if !hasIdx {
		return 0, false
	}
	for _, ins := range li.head.Instrs {
		if b, ok := ins.(*ssa.BinOp); ok && b.Op == token.LSS {
			if _, isConst := b.Y.(*ssa.Const); isConst {
				if iv, ok := e.get(f, st, b.Y).(IntV); ok {
					if n, ok := litInt(iv.T); ok && n >= 0 && n <= 16 {
						return int(n), true
					}
				}
				return 0, false
			}
			if v, ok := f.env[b.Y]; ok {
				if iv, ok := v.(IntV); ok {
					if n, ok := litInt(iv.T); ok && n >= 0 && n <= 16 {
						return int(n), true
					}
				}
			}
		}
	}
	return 0, false
}

// rootOf strips field and index selections from an address expression.
func rootOf(v ssa.Value) ssa.Value {
	for {
		switch x := v.(type) {
		case *ssa.FieldAddr:
			v = x.X
			continue
		case *ssa.IndexAddr:
			v = x.X
			continue
		}
		return v
	}
}

// enterLoop cuts a loop at its head: assert the invariant, forget what the body may write, assume the invariant.
func (e *Engine) enterLoop(f *frame, st *State, li *loopInfo, reach string, top bool) {
	fn := f.fn
	var invs []*ssa.Function
	if top && e.fc != nil {
		for _, name := range e.fc.invFuncs(li.ord) {
			if m := e.pkg.Func(name); m != nil {
				invs = append(invs, m)
			}
		}
	}
	if len(invs) == 0 && !e.cfg.Effects {
		// No invariant: the loop is summarised by forgetting everything its body may write. That is an
		// over-approximation, so what is discharged stays discharged; a failed obligation is believed only when its
		// counterexample replays on the real code (see decide).
		e.approxLoops = append(e.approxLoops, fmt.Sprintf("loop %d of %s has no invariant", li.ord, fn.Name()))
		e.note(fmt.Sprintf("loop %d of %s has no invariant: summarised by forgetting what it writes; failures after it need a replayed counterexample", li.ord, fn.Name()))
	}
	evalInv := func(s *State) string {
		var conj []string
		for _, inv := range invs {
			var ia []Val
			for _, p := range inv.Params {
				name := strings.TrimPrefix(p.Name(), "gocvcount_")
				if name == "range__" {
					ia = append(ia, e.rangedSlice(f, s, li))
					continue
				}
				c, ok := f.named[name]
				if p.Name() != name { // range variable: completed iterations
					ri := e.rangeIndexCell(f, li)
					if ri == nil {
						panic(unsupported{"invariant names range variable " + name + " but the loop has no range index"})
					}
					ia = append(ia, IntV{"(+ " + termOf(s.cells[ri]) + " 1)"})
					continue
				}
				if !ok {
					// function parameter
					found := false
					for i, fp := range fn.Params {
						if fp.Name() == name {
							ia = append(ia, e.entryParam(f, s, i))
							found = true
						}
					}
					if !found {
						// captured variable of a closure under contract
						for _, fv := range fn.FreeVars {
							if fv.Name() == name {
								if v := e.load(s, f.env[fv], fv.Type().(*types.Pointer).Elem(), "true", token.NoPos); v != nil {
									ia = append(ia, v)
									found = true
								}
							}
						}
					}
					if !found {
						panic(unsupported{"invariant parameter " + name + " not found in " + fn.Name()})
					}
					continue
				}
				ia = append(ia, s.cells[c])
			}
			conj = append(conj, e.pureCall(inv, ia, nil, s)[0].(BoolV).T)
		}
		return and(conj...)
	}
	if len(invs) > 0 {
		e.oblige("inv-entry", fmt.Sprintf("loop%d", li.ord), reach, evalInv(st), li.head.Instrs[0].Pos())
	}
	// havoc everything the body may write
	for blk := range li.blocks {
		for _, ins := range blk.Instrs {
			switch x := ins.(type) {
			case *ssa.Store:
				e.havocRoot(f, st, li, x.Addr)
			case *ssa.MapUpdate:
				e.havocRoot(f, st, li, x.Map)
			case ssa.CallInstruction:
				cc := x.Common()
				keeps := cc.IsInvoke() && e.ctx.ifaceKeepsArgs(types.TypeString(cc.Value.Type(), nil), cc.Method.Name())
				for _, a := range cc.Args {
					if _, isPtr := a.Type().Underlying().(*types.Pointer); isPtr {
						if !keeps && !e.calleeKeepsMemory(cc) {
							e.havocRoot(f, st, li, a)
						}
					}
				}
				// closures called in the loop may write their captured cells
				if mc, ok := cc.Value.(*ssa.MakeClosure); ok {
					for _, bnd := range mc.Bindings {
						e.havocRoot(f, st, li, bnd)
					}
				}
			}
		}
	}
	// the hidden index of a range loop is compiler-generated: it starts at -1 and only ever grows by one
	if ri := e.rangeIndexCell(f, li); ri != nil && !e.bv() {
		if iv, ok := st.cells[ri].(IntV); ok {
			e.fact(imp(reach, "(>= "+iv.T+" (- 1))"))
			e.loopIdxSyms = append(e.loopIdxSyms, iv.T)
		}
	}
	if len(invs) > 0 {
		e.fact(imp(reach, evalInv(st)))
		f.invs[li.head] = evalInv
	}
}

func (e *Engine) entryParam(f *frame, s *State, i int) Val {
	p := f.fn.Params[i]
	// in NaiveForm a parameter that is assigned to lives in a cell named after it
	if c, ok := f.named[p.Name()]; ok {
		return s.cells[c]
	}
	return f.env[p]
}

func (e *Engine) rangeIndexCell(f *frame, li *loopInfo) *Cell {
	// the hidden range index cell of this loop is the one stored in the loop head
	for _, ins := range li.head.Instrs {
		if st, ok := ins.(*ssa.Store); ok {
			if al, ok := st.Addr.(*ssa.Alloc); ok && al.Comment == "rangeindex" {
				if av, ok := f.env[al].(AddrV); ok {
					return av.Cell
				}
			}
		}
	}
	return nil
}

// rangedSlice is the slice a range loop iterates over: the operand of the len() the hidden index is compared with.
func (e *Engine) rangedSlice(f *frame, st *State, li *loopInfo) Val {
	for _, ins := range li.head.Instrs {
		if b, ok := ins.(*ssa.BinOp); ok && b.Op == token.LSS {
			if call, ok := b.Y.(*ssa.Call); ok {
				if bi, ok := call.Call.Value.(*ssa.Builtin); ok && bi.Name() == "len" && len(call.Call.Args) == 1 {
					return e.get(f, st, call.Call.Args[0])
				}
			}
		}
	}
	panic(unsupported{"range__ used in the invariant of a loop that does not range over a slice"})
}

// havocRoot forgets the memory an address expression (evaluated at the loop head) may point into.
func (e *Engine) havocRoot(f *frame, st *State, li *loopInfo, addr ssa.Value) {
	root := rootOf(addr)
	if ad, ok := root.(*ssa.Alloc); ok {
		if li.blocks[ad.Block()] {
			return // allocated inside the loop: fresh every iteration
		}
		e.havocAddr(st, f.env[ad], ad.Comment)
		return
	}
	// pointer held in a local variable or parameter: havoc what it points to at the loop head
	if u, ok := root.(*ssa.UnOp); ok && u.Op == token.MUL {
		if ad, ok := rootOf(u.X).(*ssa.Alloc); ok && !li.blocks[ad.Block()] {
			if av, ok := f.env[ad].(AddrV); ok {
				if fa, ok := u.X.(*ssa.FieldAddr); ok {
					_ = fa
				}
				v := st.cells[av.Cell]
				if x, ok := u.X.(*ssa.FieldAddr); ok {
					v = e.getPath(v, []int{x.Field})
				}
				e.havocPointee(st, v, ad.Comment)
				return
			}
			if pv, ok := f.env[ad].(PtrV); ok && pv.Cell != nil {
				if x, ok := u.X.(*ssa.FieldAddr); ok {
					v := e.getPath(st.cells[pv.Cell], []int{x.Field})
					e.havocPointee(st, v, ad.Comment)
					return
				}
			}
		}
		if ad, ok := rootOf(u.X).(*ssa.Alloc); ok && li.blocks[ad.Block()] {
			return
		}
	}
	if v, ok := f.env[root]; ok {
		e.havocPointee(st, v, root.Name())
		return
	}
	if _, ok := root.(*ssa.Global); ok {
		return // globals are read as fresh values anyway
	}
	// the address is computed inside the loop from something we cannot name at the head
	if instr, ok := root.(ssa.Instruction); ok && li.blocks[instr.Block()] {
		// conservative: forget every array and every pointee of the same element type
		e.havocByType(st, addr.Type())
		return
	}
	e.note("loop store through untracked address " + addr.String())
}

func (e *Engine) havocByType(st *State, t types.Type) {
	pt, ok := t.Underlying().(*types.Pointer)
	if !ok {
		return
	}
	for a := range st.arrs {
		if types.Identical(a.Elem, pt.Elem()) {
			e.havocArr(st, a)
		}
	}
	for c := range st.cells {
		if types.Identical(c.Typ, pt.Elem()) {
			st.cells[c] = e.symbolic(st, c.Typ, c.Name+"_lh")
		}
	}
}

func (e *Engine) havocArr(st *State, a *Arr) {
	m := map[string]string{}
	for _, l := range a.Leaves {
		m[l.key] = e.fresh(a.Name+"_lh"+strings.ReplaceAll(l.key, ".", "_"), e.arrSort(l.sort))
	}
	st.arrs[a] = m
}

func (e *Engine) havocAddr(st *State, v Val, name string) {
	switch av := v.(type) {
	case AddrV:
		st.cells[av.Cell] = e.symbolic(st, av.Cell.Typ, av.Cell.Name+"_lh")
	case PtrV:
		if av.Cell != nil {
			st.cells[av.Cell] = e.symbolic(st, av.Cell.Typ, av.Cell.Name+"_lh")
		}
	case OptV:
		if av.Cell != nil {
			st.cells[av.Cell] = e.symbolic(st, av.Cell.Typ, av.Cell.Name+"_lh")
		}
	}
}

func (e *Engine) havocPointee(st *State, v Val, name string) {
	switch x := v.(type) {
	case PtrV:
		if x.Cell == nil {
			if c := e.ptrCell[x.Name]; c != nil {
				x.Cell = c
			}
		}
		if x.Cell == nil && len(x.Cands) > 0 {
			for _, cand := range x.Cands {
				st.cells[cand] = e.symbolic(st, cand.Typ, cand.Name+"_lh")
				delete(e.inputCells, cand)
				e.forgetStandIns(st, cand)
			}
			if c := e.mergedCell[x.Name]; c != nil {
				st.cells[c] = e.symbolic(st, c.Typ, c.Name+"_lh")
				delete(e.inputCells, c)
			}
			return
		}
		if x.Cell != nil {
			st.cells[x.Cell] = e.symbolic(st, x.Cell.Typ, x.Cell.Name+"_lh")
			delete(e.inputCells, x.Cell)
			e.forgetStandIns(st, x.Cell)
		} else {
			// not yet materialised: give it a fresh identity so that reads after the havoc do not see entry values
			c := e.newCell(x.Elem, x.Name+"_lh")
			e.ptrCell[x.Name] = c
		}
	case OptV:
		if x.Cell != nil {
			st.cells[x.Cell] = e.symbolic(st, x.Cell.Typ, x.Cell.Name+"_lh")
		}
	case SliceV:
		if x.Arr != nil {
			e.havocArr(st, x.Arr)
		}
	case AddrV:
		st.cells[x.Cell] = e.symbolic(st, x.Cell.Typ, x.Cell.Name+"_lh")
	case ElemAddrV:
		e.havocArr(st, x.Arr)
	case StructV:
		for i := range x.F {
			if x.F[i] != nil {
				e.havocPointee(st, x.F[i], name)
			}
		}
	}
}

// fnDisplayName is the name used in contract files: f, (*T).m, f$1
func fnDisplayName(fn *ssa.Function) string {
	if fn.Signature.Recv() != nil {
		t := fn.Signature.Recv().Type()
		star := ""
		if p, ok := t.(*types.Pointer); ok {
			star, t = "*", p.Elem()
		}
		if n, ok := t.(*types.Named); ok {
			return "(" + star + n.Obj().Name() + ")." + fn.Name()
		}
	}
	if fn.Parent() != nil {
		// anonymous function: parent display name + $ordinal
		return fnDisplayName(fn.Parent()) + strings.TrimPrefix(fn.Name(), fn.Parent().Name())
	}
	return fn.Name()
}

func originPkgPath(fn *ssa.Function) string {
	if fn.Pkg != nil {
		return fn.Pkg.Pkg.Path()
	}
	if o := fn.Origin(); o != nil && o.Pkg != nil {
		return o.Pkg.Pkg.Path()
	}
	if fn.Parent() != nil {
		return originPkgPath(fn.Parent())
	}
	return ""
}

func debugf(format string, a ...any) {
	if os.Getenv("GOCV_DEBUG") != "" {
		fmt.Fprintf(os.Stderr, format+"\n", a...)
	}
}

// pointeeCells lists the cells that pointers inside v (pointers to scalars, addresses of variables) point to.
func pointeeCells(v Val, out *[]*Cell) {
	switch x := v.(type) {
	case OptV:
		if x.Cell != nil {
			*out = append(*out, x.Cell)
		}
	case AddrV:
		if x.Cell != nil {
			*out = append(*out, x.Cell)
		}
	case StructV:
		for _, f := range x.F {
			if f != nil {
				pointeeCells(f, out)
			}
		}
	}
}

// escapeAcrossIterations: a pointer to a variable declared OUTSIDE a loop is stored into a container element INSIDE the
// loop. Every iteration then stores the same pointer: the elements alias one variable, which the value model of
// pointers to scalars (and the one-iteration summary of loops) does not represent. The function is outside the subset.
func (e *Engine) escapeAcrossIterations(f *frame, b *ssa.BasicBlock, v Val) {
	if f.loops == nil {
		return
	}
	var cs []*Cell
	pointeeCells(v, &cs)
	for _, c := range cs {
		ab, ok := f.allocs[c]
		if !ok {
			continue
		}
		for _, li := range f.loops {
			if li.blocks[b] && !li.blocks[ab] {
				panic(unsupported{"a pointer to the variable " + c.Name + ", declared outside a loop, is stored into a container inside the loop: the elements alias one variable across iterations"})
			}
		}
	}
}
