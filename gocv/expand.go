package main

import "strings"

// expandDefs inlines the engine's own shared definitions (define-fun d!N) into a term, so that a symbol occurring only
// inside them can be substituted.
func (e *Engine) expandDefs(term string) string {
	defs := map[string]string{}
	for _, d := range e.decls {
		if strings.HasPrefix(d, "(define-fun d!") {
			parts := strings.SplitN(d[len("(define-fun "):len(d)-1], " ", 4)
			if len(parts) == 4 {
				defs[parts[0]] = parts[3]
			}
		}
	}
	for round := 0; round < 64; round++ {
		changed := false
		var sb strings.Builder
		for i := 0; i < len(term); {
			if term[i] == 'd' && i+2 < len(term) && term[i+1] == '!' && (i == 0 || !isSymChar(term[i-1])) {
				j := i + 2
				for j < len(term) && term[j] >= '0' && term[j] <= '9' {
					j++
				}
				if body, ok := defs[term[i:j]]; ok && (j == len(term) || !isSymChar(term[j])) {
					sb.WriteString(body)
					i = j
					changed = true
					continue
				}
			}
			sb.WriteByte(term[i])
			i++
		}
		term = sb.String()
		if !changed || len(term) > 400000 {
			break
		}
	}
	return term
}
