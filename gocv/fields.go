package main

import (
	"fmt"
	"go/types"
	"regexp"
	"strings"

	"golang.org/x/tools/go/packages"
)

// Field templates.
//
//	//@ foreach F in fields(T)          every leaf field of struct type T (nested structs are descended into)
//	//@ foreach F in stringfields(T)    ... whose underlying type is string
//	//@ foreach F in intfields(T)       ... whose underlying type is an integer
//	//@ <clause with @F in its label and text, continuation lines included>
//
// The clause that follows is instantiated once per field, @F replaced by the field path (Resource.Bucket). The field
// list is read from the type as it is now, so a field that is added later is under the clause the day it is added.
// The expansion is textual and happens after the types are known and before the contract text is parsed.
type fieldEach struct{}

var foreachRe = regexp.MustCompile(`^//@\s*foreach\s+(\w+)\s+in\s+(fields|stringfields|intfields)\(([^)]+)\)\s*$`)

func hasForeach(text string) bool { return strings.Contains(text, "//@ foreach ") }

func expandForeach(text string, pkg *packages.Package) (string, error) {
	lines := strings.Split(text, "\n")
	var out []string
	for i := 0; i < len(lines); i++ {
		m := foreachRe.FindStringSubmatch(strings.TrimSpace(lines[i]))
		if m == nil {
			out = append(out, lines[i])
			continue
		}
		v, kind, tn := m[1], m[2], strings.TrimSpace(m[3])
		t, err := evalType(pkg, tn)
		if err != nil {
			return "", fmt.Errorf("foreach: %v", err)
		}
		fieldTypes := map[string]string{}
		paths := leafFields(t, kind, "", 0, func(path string, ft types.Type) {
			fieldTypes[path] = types.TypeString(ft, func(other *types.Package) string {
				if other == pkg.Types {
					return ""
				}
				return other.Name()
			})
		})
		if len(paths) == 0 {
			return "", fmt.Errorf("foreach: %s(%s) selects no field", kind, tn)
		}
		// the template: the next contract line and its continuation lines
		j := i + 1
		var tmpl []string
		for ; j < len(lines); j++ {
			l := strings.TrimSpace(lines[j])
			if !strings.HasPrefix(l, "//@") {
				break
			}
			cont := strings.HasPrefix(l[3:], "   ") || strings.HasPrefix(l[3:], "\t")
			if len(tmpl) > 0 && !cont {
				break
			}
			tmpl = append(tmpl, l)
		}
		if len(tmpl) == 0 {
			return "", fmt.Errorf("foreach %s: no clause follows", v)
		}
		out = append(out, "// (foreach expanded)")
		for _, p := range paths {
			for k, l := range tmpl {
				out = append(out, fmt.Sprintf("//@#line %d", i+2+k))
				l2 := strings.ReplaceAll(l, "@@"+v, fieldTypes[p]) // @@F: the Go type of the field
				out = append(out, strings.ReplaceAll(l2, "@"+v, p))
			}
		}
		out = append(out, fmt.Sprintf("//@#line %d", j+1))
		i = j - 1
	}
	return strings.Join(out, "\n"), nil
}

func leafFields(t types.Type, kind, prefix string, depth int, note func(string, types.Type)) []string {
	st, ok := t.Underlying().(*types.Struct)
	if !ok || depth > 4 {
		return nil
	}
	var out []string
	for i := 0; i < st.NumFields(); i++ {
		f := st.Field(i)
		name := prefix + f.Name()
		if _, nested := f.Type().Underlying().(*types.Struct); nested && !isTime(f.Type()) {
			out = append(out, leafFields(f.Type(), kind, name+".", depth+1, note)...)
			continue
		}
		switch kind {
		case "stringfields":
			if !isString(f.Type()) {
				continue
			}
		case "intfields":
			if !isInteger(f.Type()) {
				continue
			}
		}
		note(name, f.Type())
		out = append(out, name)
	}
	return out
}
