package main

import (
	"go/token"
	"strings"
	"sync"

	"golang.org/x/tools/go/ssa"
	"golang.org/x/tools/go/ssa/ssautil"
)

// Package-level variables of function type that are initialised with a function and never assigned again
// (`var MustNewBucketName = metadatastore.MustNewBucketName`) are aliases: a call through such a variable is a call of
// the function. The scan covers every function of the program that could name the variable.
var (
	funcAliasOnce sync.Once
	funcAlias     map[*ssa.Global]*ssa.Function
)

func (c *Context) funcAliasOf(g *ssa.Global) *ssa.Function {
	funcAliasOnce.Do(func() {
		stores := map[*ssa.Global][]ssa.Value{}
		escaped := map[*ssa.Global]bool{}
		for fn := range ssautil.AllFunctions(c.prog) {
			if fn.Pkg == nil && fn.Origin() == nil && fn.Parent() == nil {
				continue
			}
			if p := originPkgPath(fn); !strings.HasPrefix(p, repoPrefix) {
				continue
			}
			for _, b := range fn.Blocks {
				for _, ins := range b.Instrs {
					switch x := ins.(type) {
					case *ssa.Store:
						if gl, ok := x.Addr.(*ssa.Global); ok {
							stores[gl] = append(stores[gl], x.Val)
						}
						if gl, ok := x.Val.(*ssa.Global); ok {
							escaped[gl] = true // its address is stored somewhere: writes through it are invisible here
						}
					case *ssa.UnOp:
						// loads are fine
					default:
						for _, op := range ins.Operands(nil) {
							if op == nil || *op == nil {
								continue
							}
							if gl, ok := (*op).(*ssa.Global); ok {
								if _, isLoad := ins.(*ssa.UnOp); !isLoad {
									escaped[gl] = true // address passed on (call argument, field address ...)
								}
							}
						}
					}
				}
			}
		}
		funcAlias = map[*ssa.Global]*ssa.Function{}
		for gl, vs := range stores {
			if escaped[gl] || len(vs) != 1 {
				continue
			}
			if f, ok := vs[0].(*ssa.Function); ok {
				funcAlias[gl] = f
			}
		}
	})
	return funcAlias[g]
}

// aliasCallee resolves the callee of `v(...)` when v is a load of a function alias.
func (c *Context) aliasCallee(v ssa.Value) *ssa.Function {
	if u, ok := v.(*ssa.UnOp); ok && u.Op == token.MUL {
		if g, ok := u.X.(*ssa.Global); ok {
			return c.funcAliasOf(g)
		}
	}
	return nil
}
