package main

import (
	"strings"

	"golang.org/x/tools/go/ssa"
)

// History predicates.
//
// A Go function of the repository whose name starts with `hist` and that returns bool is a history predicate: an
// uninterpreted predicate that contracts use to say "such a call has happened in this execution". The only facts
// about it come from `history` clauses of the function under verification:
//
//	//@ history[L] every <call pattern> where <condition over the captures, applying history predicates>
//
// When an event matching the pattern is recorded, the condition is assumed under the event's path condition. Because
// the predicate is uninterpreted and only ever asserted for calls that occur on the path, whatever follows about it
// follows from the calls that were really made. History predicates are meaningful in positive positions only (loop
// invariants, postconditions): their negation can never be proved; `forbids` effect clauses express absence.
type histHome struct {
	pkg  *ssa.Package
	bind []Val
	busy bool
}

func isHistPredicate(callee *ssa.Function) bool {
	if !strings.HasPrefix(callee.Name(), "hist") || callee.Parent() != nil {
		return false
	}
	res := callee.Signature.Results()
	return res.Len() == 1 && res.At(0).Type().String() == "bool" && strings.HasPrefix(originPkgPath(callee), repoPrefix)
}

func (e *Engine) applyHistory(ev Event) {
	if e.fc == nil || e.hist.busy || e.hist.pkg == nil || e.entryState == nil {
		return
	}
	for _, ec := range e.fc.EffectCl {
		if !ec.History {
			continue
		}
		sp := e.hist.pkg
		ep := e.entryProvider(e.top, e.entryArgs, e.hist.bind, e.entryState)
		prov := func(name string) (Val, bool) {
			if e.fc.RecvName != "" && name == e.fc.RecvName && len(e.entryArgs) > 0 {
				return e.entryArgs[0], true
			}
			return ep(name)
		}
		mi, ok := e.matchPattern(sp, ec.Every, ev, prov)
		if !ok {
			continue
		}
		e.effectMatches[ec.Label]++
		wf := sp.Func(ec.whereFn)
		if wf == nil {
			panic(unsupported{"missing lowered history condition " + ec.whereFn})
		}
		as := e.bindLowered(wf, func(name string) (Val, bool) {
			if v, ok := mi.caps[name]; ok {
				return e.thaw(v), true
			}
			return prov(name)
		})
		st := ev.St
		if st == nil {
			st = e.entryState
		}
		e.hist.busy = true
		t := e.pureCallIn(sp, wf, as, nil, st)[0].(BoolV).T
		e.hist.busy = false
		e.fact(imp(and(ev.Guard, mi.cond), t))
	}
}
