package main

import "strings"

// ifaceFacts: trusted contracts of well-known standard-library interface methods (listed in evidence when used).
func (e *Engine) ifaceFacts(iface, method string, args []Val, res []Val, reach string) {
	if e.pure > 0 || e.bv() {
		return
	}
	errNil := func(i int) string {
		if i < len(res) {
			if ev, ok := res[i].(ErrV); ok {
				return eq(ev.T, "0")
			}
		}
		return "false"
	}
	if e.fc != nil && len(res) >= 2 {
		for _, suffix := range e.fc.TrustNonNil {
			// pkg.Iface.Method (one method) or pkg.Iface.* (every method: only for interfaces whose methods report
			// "not found" as an error, never as a nil result with a nil error)
			i := strings.LastIndex(suffix, ".")
			if i < 0 || !strings.HasSuffix(iface, suffix[:i]) || (suffix[i+1:] != "*" && suffix[i+1:] != method) {
				continue
			}
			for _, r := range res[:len(res)-1] {
				if pv, ok := r.(PtrV); ok {
					e.fact(imp(and(reach, errNil(len(res)-1)), not(pv.Nil)))
					e.trustedUsed[suffix+": a method that returns a nil error returns non-nil pointer results"] = true
				}
				if ov, ok := r.(OptV); ok && ov.Nil != "true" && ov.Nil != "false" {
					e.fact(imp(and(reach, errNil(len(res)-1)), not(ov.Nil)))
					e.trustedUsed[suffix+": a method that returns a nil error returns non-nil pointer results"] = true
				}
			}
		}
	}
	switch {
	case strings.HasSuffix(iface, "storage.Storage") && (method == "GetObject" || method == "HeadObject") && len(res) >= 2:
		// storage.Storage: a successful GetObject / HeadObject returns the object
		if pv, ok := res[0].(PtrV); ok {
			e.fact(imp(and(reach, errNil(len(res)-1)), not(pv.Nil)))
			e.trustedUsed["storage.Storage.GetObject / HeadObject: err == nil ==> the returned *Object is not nil"] = true
		}
	case method == "Seek" && len(res) == 2:
		// io.Seeker: a successful Seek returns a non-negative offset
		if r0, ok := res[0].(IntV); ok {
			e.fact(imp(and(reach, errNil(1)), "(and (>= "+r0.T+" 0) (<= "+r0.T+" 4611686018427387904))"))
			e.trustedUsed["io.Seeker.Seek: err == nil ==> 0 <= offset <= 2^62 (no stream is larger than 4 EiB); Seek never returns io.EOF"] = true
			if ev, ok := res[1].(ErrV); ok {
				e.fact(imp(reach, not(eq(ev.T, intLit(int64(e.ctx.errID("io.EOF")))))))
			}
		}
	case (method == "Read" || method == "Write") && len(res) == 2 && len(args) == 1:
		// io.Reader / io.Writer: 0 <= n <= len(p)
		if n, ok := res[0].(IntV); ok {
			if p, ok := args[0].(SliceV); ok {
				e.fact(imp(reach, and("(<= 0 "+n.T+")", "(<= "+n.T+" "+p.Len+")")))
				e.trustedUsed["io.Reader.Read / io.Writer.Write: 0 <= n <= len(p)"] = true
			}
		}
	case method == "Open" && strings.HasSuffix(iface, "cipher.AEAD") && len(res) == 2 && len(args) == 4:
		// cipher.AEAD.Open(dst, nonce, ciphertext, aad): on success the result is dst followed by the plaintext,
		// whose length is len(ciphertext) - Overhead(); the overhead of the GCM instances used here is the 16-byte tag
		if out, ok := res[0].(SliceV); ok {
			dst, ok1 := args[0].(SliceV)
			ct, ok2 := args[2].(SliceV)
			if ok1 && ok2 {
				e.fact(imp(and(reach, errNil(1)), and(eq(out.Len, "(- (+ "+dst.Len+" "+ct.Len+") 16)"), not(out.Nil), "(>= "+ct.Len+" 16)")))
				e.trustedUsed["cipher.AEAD.Open: err == nil ==> len(result) == len(dst) + len(ciphertext) - 16 (GCM tag)"] = true
			}
		}
	}
}
