// gocv: contract-based deductive verification of the Go code in /repo.
//
//	gocv check -prop C05 [-tier quick|thorough] [-overlay repoFile=mutantFile ...]
//	gocv baseline -prop C05          (re)writes /verif/baseline/C05.json from the current tree (developer command)
//	gocv list                        lists contract files, functions under contract and their properties
package main

import (
	"regexp"
	"runtime"
	"encoding/json"
	"flag"
	"fmt"
	"os"
	"path/filepath"
	"sort"
	"strconv"
	"strings"
	"sync"
	"time"
)

func os_getenv(k string) string { return os.Getenv(k) }

var replayBase = "/verif/replays"

type OblResult struct {
	fr      *FuncResult
	ob      Oblig
	status  string // unsat | sat | unknown
	solver  string
	dur     time.Duration
	detail  string
	verdict string // discharged | known-finding | violation | violation-unconfirmed | undecided | cover-ok | cover-fail
	finding *Finding
	replay  string
	note    string
	weak    []string // candidate search: the hypotheses without the universally quantified ones (only a replayed model counts)
}

// hyps are the hypotheses a model for this obligation must satisfy.
func (r *OblResult) hyps() []string {
	if r.weak != nil {
		return r.weak
	}
	return r.fr.eng.facts[:r.ob.NFacts]
}

type Finding struct {
	ID         string `json:"id"`
	Property   string `json:"property"`
	Package    string `json:"package"`
	Func       string `json:"func"`
	Obligation string `json:"obligation"`
	// Also lists further obligations that fail for the very same reason (the clauses of a contract are judged
	// independently of each other, so one defect can break several of them).
	Also   []string `json:"also,omitempty"`
	Region string   `json:"region,omitempty"`
	What   string   `json:"what"`
}

type FixedEntry struct {
	Property string `json:"property"`
	Commit   string `json:"commit"`
	What     string `json:"what"`
}

type FindingsFile struct {
	Findings []Finding    `json:"findings"`
	Fixed    []FixedEntry `json:"fixed"`
}

func loadFindings() *FindingsFile {
	ff := &FindingsFile{}
	data, err := os.ReadFile(filepath.Join(verifDir, "known-findings.json"))
	if err == nil {
		if err := json.Unmarshal(data, ff); err != nil {
			fmt.Fprintln(os.Stderr, "known-findings.json:", err)
		}
	}
	return ff
}

type multiFlag []string

func (m *multiFlag) String() string     { return strings.Join(*m, ",") }
func (m *multiFlag) Set(s string) error { *m = append(*m, s); return nil }

// memoryWatchdog aborts the run when the verifier itself runs away (a generator bug must not take the machine down).
func memoryWatchdog() {
	go func() {
		var ms runtime.MemStats
		for {
			time.Sleep(500 * time.Millisecond)
			runtime.ReadMemStats(&ms)
			if ms.HeapAlloc > 12<<30 {
				fmt.Println("CHECK BROKEN: the verifier exceeded its memory budget of 12 GiB (generator bug); nothing is decided")
				os.Exit(2)
			}
		}
	}()
}

func main() {
	memoryWatchdog()
	if len(os.Args) < 2 {
		fmt.Fprintln(os.Stderr, "usage: gocv check|baseline|list ...")
		os.Exit(2)
	}
	defer cleanupTmp()
	switch os.Args[1] {
	case "check", "baseline":
		fs := flag.NewFlagSet(os.Args[1], flag.ExitOnError)
		prop := fs.String("prop", "", "property id")
		tier := fs.String("tier", "quick", "quick|thorough")
		var ovs multiFlag
		fs.Var(&ovs, "overlay", "repoFile=replacementFile (self-test mutants)")
		only := fs.String("func", "", "only this function (debugging)")
		noReplay := fs.Bool("noreplay", false, "skip replays")
		noEvidence := fs.Bool("noevidence", false, "do not write evidence (self-test runs)")
		fs.StringVar(&replayBase, "replaydir", filepath.Join(verifDir, "replays"), "directory for replay artefacts")
		fs.Parse(os.Args[2:])
		if *prop == "" {
			fmt.Fprintln(os.Stderr, "missing -prop")
			os.Exit(2)
		}
		code := runCheck(*prop, *tier, ovs, *only, os.Args[1] == "baseline", *noReplay, *noEvidence)
		cleanupTmp()
		os.Exit(code)
	case "dump": // gocv dump <pkgpath> <func> : prints the SSA the executor sees (debugging aid)
		ctx, err := loadContext([]string{os.Args[2]}, nil, nil)
		if err != nil {
			fmt.Println(err)
			os.Exit(2)
		}
		for _, sp := range ctx.pkgs {
			if strings.HasSuffix(sp.Pkg.Path(), strings.TrimPrefix(os.Args[2], ".")) || sp.Pkg.Path() == os.Args[2] {
				if fn := ctx.lookupFunc(sp, os.Args[3]); fn != nil {
					fn.WriteTo(os.Stdout)
					for _, a := range fn.AnonFuncs {
						a.WriteTo(os.Stdout)
					}
				}
			}
		}
	case "list":
		for _, f := range findContractFiles() {
			cs, err := parseContractFile(f, pkgPathOfDir(filepath.Dir(f)))
			if err != nil {
				fmt.Println("ERROR", err)
				continue
			}
			for _, fc := range cs {
				fmt.Printf("%-60s %-50s %v\n", strings.TrimPrefix(fc.PkgPath, repoPrefix+"/"), fc.Func, fc.Props)
			}
		}
	default:
		fmt.Fprintln(os.Stderr, "unknown command", os.Args[1])
		os.Exit(2)
	}
}

type baselineFile struct {
	Property   string   `json:"property"`
	Discharged []string `json:"discharged"`
}

func loadBaseline(prop string) map[string]bool {
	out := map[string]bool{}
	data, err := os.ReadFile(filepath.Join(verifDir, "baseline", prop+".json"))
	if err != nil {
		return out
	}
	var bf baselineFile
	if json.Unmarshal(data, &bf) == nil {
		for _, n := range bf.Discharged {
			out[n] = true
		}
	}
	return out
}

func runCheck(prop, tier string, ovs []string, only string, writeBaseline, noReplay, noEvidence bool) int {
	t0 := time.Now()
	seed, _ := strconv.Atoi(os.Getenv("VERIF_SEED"))
	fileOv := map[string][]byte{}
	for _, kv := range ovs {
		p := strings.SplitN(kv, "=", 2)
		b, err := os.ReadFile(p[1])
		if err != nil {
			fmt.Fprintln(os.Stderr, err)
			return 2
		}
		fileOv[p[0]] = b
	}
	findings := loadFindings()
	// which packages hold contracts of this property?
	pkgSet := map[string]bool{}
	for _, f := range findContractFiles() {
		pp := pkgPathOfDir(filepath.Dir(f))
		var cs []*FuncContract
		var err error
		if ov, ok := fileOv[f]; ok {
			cs, err = parseContractText(string(ov), f, pp)
		} else {
			cs, err = parseContractFile(f, pp)
		}
		if err != nil {
			fmt.Println("CONTRACT ERROR:", err)
			return 2
		}
		for _, fc := range cs {
			if fc.hasProp(prop) {
				pkgSet[pp] = true
			}
		}
		rules, _ := parseRules(f, fileOv[f])
		for _, r := range rules {
			if r.Prop == prop {
				pkgSet[pp] = true
			}
		}
	}
	if len(pkgSet) == 0 {
		fmt.Printf("no contracts for property %s\n", prop)
		return 2
	}
	var wantPkgs []string
	for p := range pkgSet {
		wantPkgs = append(wantPkgs, p)
	}
	sort.Strings(wantPkgs)
	ctx, err := loadContext(wantPkgs, fileOv, findings)
	if err != nil {
		// a tree that does not load (compile error after an edit, contract naming a vanished identifier) is undecided, not a violation
		fmt.Println("UNDECIDED: cannot load packages with contracts:", err)
		writeEvidence(prop, tier, seed, nil, nil, time.Since(t0), "load error: "+err.Error(), noEvidence)
		return 0
	}
	tLoad := time.Since(t0)
	ctx.prop = prop
	// run every function under contract for this property
	var frs []*FuncResult
	for _, pp := range wantPkgs {
		for _, fc := range ctx.contracts[pp] {
			if !fc.hasProp(prop) || fc.Trusted {
				continue
			}
			if only != "" && fc.Func != only {
				continue
			}
			frs = append(frs, ctx.verifyFunc(fc))
		}
	}
	// effect rules
	for _, r := range ctx.rules {
		if r.Prop == prop && only == "" {
			frs = append(frs, ctx.runRule(r)...)
		}
	}
	var all []*OblResult
	for _, fr := range frs {
		if fr.eng == nil {
			continue
		}
		for _, ob := range fr.eng.obls {
			if ob.Label != "" && !fr.fc.counts(ob.Label, prop) {
				continue // labelled for another property
			}
			all = append(all, &OblResult{fr: fr, ob: ob})
		}
	}
	timeout := 10 * time.Second
	if tier == "thorough" {
		timeout = 60 * time.Second
	}
	solveAll(all, timeout)
	baseline := loadBaseline(prop)
	// verdicts
	violations := 0
	var lines []string
	for _, r := range all {
		decide(ctx, r, prop, baseline, timeout, noReplay)
		switch r.verdict {
		case "violation", "violation-unconfirmed":
			violations++
			suffix := ""
			if r.verdict == "violation-unconfirmed" {
				suffix = " no-failing-input-found"
			}
			lines = append(lines, fmt.Sprintf("VIOLATION property=%s replay=%s obligation=%q%s", prop, r.replay, r.ob.Name, suffix))
		case "known-finding":
			lines = append(lines, fmt.Sprintf("KNOWN-FINDING: property=%s %s (%s; obligation %s)", prop, r.finding.What, r.finding.ID, r.ob.Name))
		case "undecided":
			lines = append(lines, fmt.Sprintf("UNDECIDED obligation %s: %s %s", r.ob.Name, r.status, r.note))
		case "cover-fail":
			lines = append(lines, fmt.Sprintf("VACUOUS contract: %s (precondition or assumptions exclude every return): %s", r.ob.Name, r.status))
		}
	}
	// bounded concrete search (stand-in, labelled bounded): for a function that could not be decided, and for
	// obligations with a counter-model the replay could not realise, the executable contract is used as an oracle on
	// generated inputs of the real function. It can only confirm a violation.
	boundedRuns := 0
	var knownBounded []string
	_ = knownBounded
	if !noReplay {
		need := map[*FuncResult]bool{}
		for _, fr := range frs {
			if fr.undecided != "" && fr.fn != nil {
				need[fr] = true
			}
		}
		for _, r := range all {
			if (r.verdict == "undecided" || r.verdict == "violation-unconfirmed") && r.ob.Kind != "effect" && r.ob.Kind != "cover" {
				need[r.fr] = true
			}
		}
		for _, fr := range frs {
			if !need[fr] {
				continue
			}
			dir := filepath.Join(replayBase, prop, safeName(fr.fc.Func)+"_bounded_search")
			n := 200000
			if tier == "thorough" {
				n = 5000000
			}
			if fr.fc != nil && fr.fc.Bounded != "" {
				if k, err := strconv.Atoi(fr.fc.Bounded); err == nil && k > 0 {
					n = k
					if tier == "thorough" {
						n = 25 * k
					}
				}
			}
			// generous limits: the searches of one check run one after the other, but several checks may share the
			// machine; a search that is cut off explores nothing and must not pass for one that found nothing
			testTimeout := 20 * time.Minute
			if tier == "thorough" {
				testTimeout = 3 * time.Hour
			}
			if k, err := strconv.Atoi(os.Getenv("GOCV_SEARCH_TIMEOUT_S")); err == nil && k > 0 {
				testTimeout = time.Duration(k) * time.Second // for testing the did-not-finish path
			}
			statsRe := regexp.MustCompile(`GOCV-SEARCH-STATS generated=(\d+) satisfied=(\d+) distinct=(\d+)`)
			var confirmed bool
			var log string
			finished := false
			for attempt := 0; attempt < 2 && !finished; attempt++ {
				confirmed, log = searchFunction(ctx, fr, prop, dir, n, testTimeout)
				// the search ran to a verdict only if the test printed its statistics and one of its two verdict lines
				finished = statsRe.MatchString(log) && (confirmed || strings.Contains(log, "REPLAY-NOT-CONFIRMED (bounded search"))
			}
			boundedRuns++
			fr.searchInputs = n
			if m := statsRe.FindStringSubmatch(log); m != nil {
				fr.searchGenerated, _ = strconv.Atoi(m[1])
				fr.searchTried, _ = strconv.Atoi(m[2])
				fr.searchDistinct, _ = strconv.Atoi(m[3])
			}
			if !finished {
				// build failure, crash outside the judged call, deadlock or time limit: nothing can be said
				fr.searchResult = "search-did-not-finish"
				fr.searchNote = lastLinesOf(log, 12)
				os.WriteFile(filepath.Join(dir, "replay.log"), []byte(log), 0o644)
				lines = append(lines, fmt.Sprintf("UNDECIDED bounded search of %s did not run to a verdict (twice); log: %s", fr.fc.Func, filepath.Join(dir, "replay.log")))
				continue
			}
			fr.searchResult = "no-violation-found"
			if !confirmed {
				fr.searchNote = firstLineOf(log)
				continue
			}
			fr.searchResult = "violation-found"
			// a recorded finding names the bounded-search obligation of a scenario that states exactly the failing case
			if kf := boundedFinding(ctx, prop, fr); kf != nil {
				fr.searchResult = "known-finding"
				os.WriteFile(filepath.Join(dir, "replay.log"), []byte(log), 0o644)
				lines = append(lines, fmt.Sprintf("KNOWN-FINDING: property=%s %s (%s; obligation %s#bounded-search)", prop, kf.What, kf.ID, fr.fc.Func))
				knownBounded = append(knownBounded, kf.ID)
				continue
			}
			os.WriteFile(filepath.Join(dir, "replay.log"), []byte(log), 0o644)
			os.WriteFile(filepath.Join(dir, "obligation.txt"), []byte(fmt.Sprintf("property: %s\nfunction: %s\nkind: bounded concrete search with the executable contract as oracle (stand-in, %d generated inputs)\nreason it ran: %s\n", prop, fr.fc.Func, n, fr.undecided)), 0o644)
			violations++
			lines = append(lines, fmt.Sprintf("VIOLATION property=%s replay=%s obligation=%q (bounded search on the real code)", prop, dir, fr.fc.Func+"#bounded-search"))
			for _, r := range all {
				if r.fr == fr && r.verdict == "violation-unconfirmed" {
					r.verdict = "violation"
				}
			}
		}
	}
	for _, fr := range frs {
		if fr.undecided != "" {
			lines = append(lines, fmt.Sprintf("UNDECIDED function %s: %s", fr.fc.Func, fr.undecided))
		}
	}
	// vacuity of effect clauses: a clause whose `every` pattern matches no event in any function it is attached to
	// proves nothing (a renamed callee, a call that is no longer an event ...)
	effTotal := map[string]int{}
	effDecided := map[string]bool{}
	for _, fr := range frs {
		if fr.eng == nil || fr.fc == nil {
			continue
		}
		for _, ec := range fr.fc.EffectCl {
			if !fr.fc.counts(ec.Label, prop) || propOfLabel(ec.Label) == "" {
				continue
			}
			if ec.Never {
				continue // a `never` clause is expected to match nothing
			}
			effTotal[ec.Label] += fr.eng.effectMatches[ec.Label]
			if fr.undecided == "" {
				effDecided[ec.Label] = true
			}
		}
	}
	vacuousEffects := 0
	for label, n := range effTotal {
		if n == 0 && effDecided[label] {
			matchedBefore := false
			for k := range baseline {
				if strings.Contains(k, "#effect:"+label+":") && !strings.HasSuffix(k, ":*") {
					matchedBefore = true
				}
			}
			if matchedBefore && !writeBaseline {
				// the calls the clause spoke about on the unchanged tree are gone (moved into another function, renamed):
				// the clause decides nothing about this tree; that is not a defect of the check
				lines = append(lines, fmt.Sprintf("UNDECIDED effect clause %s: it matched calls on the unchanged tree and matches none now", label))
				continue
			}
			lines = append(lines, fmt.Sprintf("VACUOUS effect clause %s: its pattern matches no call in any function it is attached to", label))
			vacuousEffects++
		}
	}
	sort.Strings(lines)
	seen := map[string]bool{}
	for _, l := range lines {
		if !seen[l] {
			fmt.Println(l)
			seen[l] = true
		}
	}
	counts := map[string]int{}
	for _, r := range all {
		counts[r.verdict]++
	}
	fmt.Printf("summary property=%s tier=%s functions=%d obligations=%d %v load=%v wall=%v\n", prop, tier, len(frs), len(all), counts, tLoad.Round(time.Millisecond), time.Since(t0).Round(time.Millisecond))
	if writeBaseline {
		var names []string
		for _, r := range all {
			if r.verdict == "discharged" {
				names = append(names, r.ob.Name)
			}
		}
		for _, fr := range frs {
			if fr.eng != nil {
				names = append(names, fr.eng.trivial...)
			}
		}
		// clause-level entries: an effect clause that held for every call it applied to in a function (including
		// none at all) is recorded as such, so that a call added later which breaks it is judged against the baseline
		failedClause := map[string]bool{}
		for _, r := range all {
			if r.ob.Kind == "effect" && r.verdict != "discharged" {
				failedClause[effectClauseKey(r.ob.Name)] = true
			}
		}
		for _, fr := range frs {
			if fr.eng == nil || fr.fc == nil || fr.undecided != "" {
				continue
			}
			for _, ec := range fr.fc.EffectCl {
				if ec.History || !fr.fc.counts(ec.Label, prop) || propOfLabel(ec.Label) == "" {
					continue
				}
				key := fr.fc.Func + "#effect:" + ec.Label + ":*"
				if !failedClause[key] {
					names = append(names, key)
				}
			}
		}
		sort.Strings(names)
		os.MkdirAll(filepath.Join(verifDir, "baseline"), 0o755)
		js, _ := json.MarshalIndent(baselineFile{Property: prop, Discharged: names}, "", " ")
		os.WriteFile(filepath.Join(verifDir, "baseline", prop+".json"), js, 0o644)
		fmt.Printf("baseline written: %d discharged obligations\n", len(names))
	}
	writeEvidence(prop, tier, seed, frs, all, time.Since(t0), "", noEvidence)
	if violations > 0 {
		return 1
	}
	// vacuity: zero obligations or a contract that excludes everything is broken machinery, not a pass
	if (len(all) == 0 && boundedRuns == 0) || counts["cover-fail"] > 0 || vacuousEffects > 0 {
		fmt.Println("CHECK BROKEN: no obligations generated or vacuous contract")
		return 3
	}
	return 0
}

func solveAll(all []*OblResult, timeout time.Duration) {
	var wg sync.WaitGroup
	sem := make(chan struct{}, 12)
	for _, r := range all {
		wg.Add(1)
		go func(r *OblResult) {
			defer wg.Done()
			sem <- struct{}{}
			defer func() { <-sem }()
			e := r.fr.eng
			q := buildQuery(e.declsFor(r.ob), e.facts[:r.ob.NFacts], []string{r.ob.Reach, not(r.ob.Goal)}, "")
			keep := ""
			if d := os.Getenv("GOCV_KEEP_SMT"); d != "" {
				os.MkdirAll(d, 0o755)
				keep = filepath.Join(d, safeName(r.ob.Name)+".smt2")
			}
			to := timeout
			if r.ob.Kind == "cover" {
				to = timeout / 2
			}
			sr := race(q, to, keep)
			if sr.status == "unknown" && r.ob.Kind != "cover" {
				// arrays passed to uninterpreted functions make satisfiable queries slow; without array extensionality
				// z3 answers at once. Its `unsat` is sound as it stands; its `sat` is only taken after the ordinary
				// solvers have failed a second time with three times the budget (solver time varies with machine load)
				ne := noExt(q, to)
				ne.dur += sr.dur
				if ne.status == "unsat" {
					sr = ne
				} else {
					sr2 := race(q, 3*to, "")
					sr2.dur += ne.dur
					sr = sr2
					if sr.status == "unknown" && ne.status == "sat" {
						ne.dur = sr2.dur
						sr = ne
					}
				}
			}
			r.status, r.solver, r.dur, r.detail = sr.status, sr.solver, sr.dur, sr.out
		}(r)
	}
	wg.Wait()
}

// declsFor returns the declarations an obligation may need (all of them: declarations are cheap).
func (e *Engine) declsFor(ob Oblig) []string { return e.decls }

func findingFor(ctx *Context, r *OblResult, prop string) *Finding {
	if ctx.findings == nil {
		return nil
	}
	for i := range ctx.findings.Findings {
		f := &ctx.findings.Findings[i]
		if f.Property != prop || (f.Package != "" && f.Package != r.fr.fc.PkgPath) {
			continue
		}
		if f.Obligation == r.ob.Name {
			return f
		}
		for _, o := range f.Also {
			if o == r.ob.Name && f.Region == "" {
				return f
			}
		}
	}
	return nil
}

// decide turns a solver answer into a verdict.
func decide(ctx *Context, r *OblResult, prop string, baseline map[string]bool, timeout time.Duration, noReplay bool) {
	if r.ob.Kind == "cover" {
		switch r.status {
		case "sat":
			r.verdict = "cover-ok"
		case "unsat":
			r.verdict = "cover-fail"
		default:
			r.verdict = "cover-ok" // unknown: not evidence of vacuity
			r.note = "cover query undecided"
		}
		return
	}
	if r.status == "unsat" {
		r.verdict = "discharged"
		return
	}
	e := r.fr.eng
	// known finding: is every failure inside the recorded region?
	if f := findingFor(ctx, r, prop); f != nil {
		extra := []string{r.ob.Reach, not(r.ob.Goal)}
		if f.Region != "" {
			rt, err := e.regionTerm(r.fr, f)
			if err != nil {
				r.verdict, r.note = "undecided", "known-finding region not evaluable: "+err.Error()
				return
			}
			extra = append(extra, not(rt))
			sr := race(buildQuery(e.decls, e.facts[:r.ob.NFacts], extra, ""), timeout, "")
			if sr.status == "unsat" {
				r.verdict, r.finding = "known-finding", f
				return
			}
			// something outside the region fails too: report it with the region excluded
			r.ob.Reach = and(r.ob.Reach, not(rt))
			r.status = sr.status
		} else {
			r.verdict, r.finding = "known-finding", f
			return
		}
	}
	dir := filepath.Join(replayBase, prop, safeName(r.ob.Name))
	r.replay = dir
	os.MkdirAll(dir, 0o755)
	os.WriteFile(filepath.Join(dir, "obligation.txt"), []byte(fmt.Sprintf("property: %s\nobligation: %s\nkind: %s\nposition: %s\nsolver answer: %s (%s)\n\nsolver output:\n%s\n", prop, r.ob.Name, r.ob.Kind, r.ob.Pos, r.status, r.solver, truncate(r.detail, 20000))), 0o644)
	os.WriteFile(filepath.Join(dir, "query.smt2"), []byte(buildQuery(e.decls, e.facts[:r.ob.NFacts], []string{r.ob.Reach, not(r.ob.Goal)}, "(get-model)\n")), 0o644)
	if r.status == "unknown" && !noReplay && r.ob.Kind != "effect" {
		// The solvers gave up, usually over a quantified hypothesis (a loop invariant with forall). Candidate search:
		// drop the universally quantified hypotheses, ask for a model of the rest and run the real code on it. The
		// weaker query proves nothing by itself - only a replay that fails on the real code is reported.
		var weak []string
		for _, f := range e.facts[:r.ob.NFacts] {
			if !strings.Contains(f, "(forall ") {
				weak = append(weak, f)
			}
		}
		if len(weak) < r.ob.NFacts {
			sr := race(buildQuery(e.decls, weak, []string{r.ob.Reach, not(r.ob.Goal)}, ""), timeout, "")
			if sr.status == "sat" {
				r.weak = weak
				confirmed, log := replayObligation(ctx, r, dir)
				os.WriteFile(filepath.Join(dir, "replay.log"), []byte("candidate from the query without quantified hypotheses\n"+log), 0o644)
				if confirmed {
					r.verdict = "violation"
					r.status = "sat"
					r.note = "solvers undecided on the full query; counterexample found without the quantified hypotheses and confirmed on the real code"
					return
				}
				r.weak = nil
				r.note = "candidate counterexample (quantified hypotheses dropped) did not replay: " + firstLineOf(log)
			}
		}
	}
	if r.status == "sat" && !noReplay {
		confirmed, log := replayObligation(ctx, r, dir)
		os.WriteFile(filepath.Join(dir, "replay.log"), []byte(log), 0o644)
		if confirmed {
			r.verdict = "violation"
			return
		}
		r.note = "replay did not confirm: " + firstLineOf(log)
	}
	// An obligation that was discharged on the unchanged tree and now has a counter-model (that the replay could not
	// turn into a failing run) is reported with the solver's reason attached. A solver that merely gives up
	// (unknown / timeout, also after the longer retry) is not evidence of a violation: undecided.
	if len(e.approxLoops) > 0 && r.ob.Kind != "effect" {
		r.verdict = "undecided"
		r.note = strings.TrimSpace(r.note + " (" + e.approxLoops[0] + ": summarised by forgetting what it writes, so only a replayed counterexample counts)")
		return
	}
	if (baseline[r.ob.Name] || r.ob.Kind == "effect" && baseline[effectClauseKey(r.ob.Name)]) && r.status == "sat" {
		r.verdict = "violation-unconfirmed"
		return
	}
	r.verdict = "undecided"
}

func truncate(s string, n int) string {
	if len(s) > n {
		return s[:n] + "\n...[truncated]"
	}
	return s
}

func firstLineOf(s string) string {
	s = strings.TrimSpace(s)
	if i := strings.IndexByte(s, '\n'); i >= 0 {
		return s[:i]
	}
	return s
}

func lastLinesOf(s string, n int) string {
	ls := strings.Split(strings.TrimSpace(s), "\n")
	if len(ls) > n {
		ls = ls[len(ls)-n:]
	}
	return strings.Join(ls, "\n")
}

// regionTerm evaluates the lowered region predicate of a finding on the entry values of the function.
func (e *Engine) regionTerm(fr *FuncResult, f *Finding) (t string, err error) {
	defer func() {
		if r := recover(); r != nil {
			err = fmt.Errorf("%v", r)
		}
	}()
	name := fr.fc.regions[f.ID]
	if name == "" {
		return "", fmt.Errorf("no lowered region for %s", f.ID)
	}
	sp := e.ctx.pkgs[fr.fc.PkgPath]
	rf := sp.Func(name)
	if rf == nil {
		return "", fmt.Errorf("region function %s missing", name)
	}
	nd := len(e.decls)
	_ = nd
	as := e.bindLowered(rf, e.entryProvider(fr.fn, fr.args, fr.bind, e.entryState))
	return e.pureCallIn(sp, rf, as, nil, e.entryState)[0].(BoolV).T, nil
}

// ---------- evidence ----------

func writeEvidence(prop, tier string, seed int, frs []*FuncResult, all []*OblResult, wall time.Duration, problem string, skip bool) {
	if skip {
		return
	}
	type sample struct {
		Obligation string  `json:"obligation"`
		Kind       string  `json:"kind"`
		Result     string  `json:"result"`
		Solver     string  `json:"solver,omitempty"`
		Seconds    float64 `json:"seconds"`
		Position   string  `json:"position,omitempty"`
	}
	obligations, discharged, violations := 0, 0, 0
	var samples []sample
	var undecided, known []string
	trusted := map[string]bool{}
	notes := map[string]bool{}
	havocked := map[string]bool{}
	var funcs []string
	solverTime := 0.0
	bySolver := map[string]int{}
	for _, fr := range frs {
		name := strings.TrimPrefix(fr.fc.PkgPath, repoPrefix+"/") + "." + fr.fc.Func
		if fr.undecided != "" {
			undecided = append(undecided, "function "+name+": "+fr.undecided)
		}
		funcs = append(funcs, name)
		if fr.eng != nil {
			for t := range fr.eng.trustedUsed {
				trusted["trusted model: "+t] = true
			}
			for _, n := range fr.eng.notes {
				notes[n] = true
			}
			for h := range fr.eng.havocked {
				havocked[h] = true
			}
			if fr.eng.freshMerges > 0 {
				notes["fresh objects merged at joins (assumed unaliased)"] = true
			}
		}
	}
	for _, r := range all {
		if r.ob.Kind == "cover" {
			continue
		}
		obligations++
		solverTime += r.dur.Seconds()
		switch r.verdict {
		case "discharged":
			discharged++
			bySolver[r.solver]++
		case "known-finding":
			// the obligation that is claimed is the one with the recorded region excluded; that query was answered unsat
			// (a finding without a region names one whole obligation, which is then not claimed at all)
			known = append(known, r.finding.ID+": "+r.ob.Name)
			if r.finding.Region != "" {
				discharged++
			} else {
				obligations--
			}
		case "violation", "violation-unconfirmed":
			violations++
		case "undecided":
			undecided = append(undecided, "obligation "+r.ob.Name+": "+r.status+" "+r.note)
		}
		if len(samples) < 400 {
			samples = append(samples, sample{Obligation: r.ob.Name, Kind: r.ob.Kind, Result: r.verdict, Solver: r.solver, Seconds: float64(r.dur.Milliseconds()) / 1000, Position: relPos(r.ob.Pos.String())})
		}
	}
	sort.Strings(funcs)
	var tb []string
	for t := range trusted {
		tb = append(tb, t)
	}
	tb = append(tb, "gocv symbolic executor and SMT encoding (this tool)", "go/ssa (x/tools v0.50.0) NaiveForm construction", "z3 4.8.12, z3 5.1.0, cvc5 1.0.3: an obligation is accepted on one unsat answer")
	sort.Strings(tb)
	var assumptions []string
	for n := range notes {
		assumptions = append(assumptions, n)
	}
	for h := range havocked {
		assumptions = append(assumptions, "call abstracted (results unconstrained, pointer arguments forgotten): "+h)
	}
	assumptions = append(assumptions,
		"distinct input pointers do not alias; method receivers are non-nil",
		"integers are mathematical; in functions marked `arith int` every + - * << and narrowing conversion carries an overflow obligation, elsewhere machine wrap-around is not modelled",
		"goroutine bodies are not executed; channel operations yield unconstrained values",
		"termination is not verified")
	sort.Strings(assumptions)
	level := "proof"
	explanation := ""
	if pd, ok := propDocs[prop]; ok {
		if pd.Level != "" {
			level = pd.Level
		}
		explanation = pd.Explanation
		assumptions = append(assumptions, pd.Assumptions...)
	}
	// the level claimed for the property and the statement of what is (not) covered live in /verif/props.json
	if data, err := os.ReadFile(filepath.Join(verifDir, "props.json")); err == nil {
		var props map[string]struct {
			Category string `json:"category"`
			Text     string `json:"text"`
			Note     string `json:"note"`
		}
		if json.Unmarshal(data, &props) == nil {
			if pd, ok := props[prop]; ok && pd.Category != "" {
				level = pd.Category
				explanation = "claimed: " + pd.Text + " -- assumed / not covered: " + pd.Note
			}
		}
	}
	if level == "proof" && (discharged != obligations || obligations == 0) {
		level = "other"
		explanation = "not every obligation was discharged on this run (see undecided / violations); the run does not count as a proof. " + explanation
	}
	if explanation == "" {
		explanation = "every verification condition generated from the functions under contract was discharged by an SMT solver (see obligations/discharged, samples)"
	}
	cov := map[string]any{
		"obligations":           obligations,
		"discharged":            discharged,
		"known_findings":        known,
		"undecided":             undecided,
		"checker_cmd":           fmt.Sprintf("./check %s %s  (gocv: go/ssa VC generation; z3 4.8.12 | z3 5.1.0 | cvc5 1.0.3 raced per obligation)", prop, tier),
		"trusted_base":          tb,
		"functions_under_contract": funcs,
		"samples":               samples,
		"solver_seconds":        solverTime,
		"discharged_by_solver":  bySolver,
		"explanation":           explanation,
		"evaluations":           obligations,
		"distinct_nontrivial":   discharged,
		"rule":                  "one evaluation = one verification condition generated from the current source of a function under contract; non-trivial = not syntactically true, sent to the solvers and answered unsat",
	}
	var bounded []map[string]any
	boundedInputs, boundedTried, boundedDistinct := 0, 0, 0
	for _, fr := range frs {
		if fr.searchInputs > 0 && fr.fc != nil {
			bounded = append(bounded, map[string]any{"function": fr.fc.Func, "input_budget": fr.searchInputs, "generated_inputs": fr.searchGenerated, "inputs_satisfying_the_precondition": fr.searchTried, "distinct_inputs_satisfying_the_precondition": fr.searchDistinct, "result": fr.searchResult,
				"why": "stand-in: " + firstNonEmpty(fr.undecided, "an obligation of this function was not discharged"), "bound": fmt.Sprintf("%d pseudo-random inputs from a fixed seed (values from tables of boundary cases plus small random ones; slices and strings of length <= 5)", fr.searchInputs)})
			if fr.searchResult == "search-did-not-finish" {
				bounded[len(bounded)-1]["end_of_log"] = fr.searchNote
			}
			boundedInputs += fr.searchGenerated
			boundedTried += fr.searchTried
			boundedDistinct += fr.searchDistinct
		}
	}
	if len(bounded) > 0 {
		cov["bounded_searches"] = bounded
		cov["bounded_note"] = "BOUNDED stand-ins (the executable contract is the oracle of a random search on the real function): they can confirm a violation; finding none proves nothing and is not counted as discharged"
	}
	if level == "exploration" {
		// a check that consists of bounded stand-ins only: the generic counters describe the search, not solver obligations
		cov["evaluations"] = boundedInputs
		cov["distinct_nontrivial"] = boundedDistinct
		cov["inputs_satisfying_the_precondition"] = boundedTried
		cov["rule"] = "one evaluation = one generated input of a ghost scenario executed on the real code and judged by its contract (a search that meets a violation stops there, so a scenario recorded as a known finding executes only the inputs up to its first failing one); non-trivial = the input satisfies the scenario's precondition; distinct = counted by the test itself per scenario as the number of different 64-bit FNV hashes of a canonical deep rendering of the argument tuple (pointers followed), summed over the scenarios; inputs come from one fixed master seed"
		var ss []any
		for _, b := range bounded {
			ss = append(ss, b)
		}
		if len(ss) > 0 {
			cov["samples"] = ss
		}
	}
	if problem != "" {
		cov["problem"] = problem
	}
	ev := map[string]any{
		"property_id": prop,
		"tier":        tier,
		"seed":        seed,
		"level":       level,
		"coverage":    cov,
		"assumptions": assumptions,
		"wall_s":      wall.Seconds(),
		"violations":  violations,
	}
	os.MkdirAll(filepath.Join(verifDir, "evidence"), 0o755)
	js, _ := json.MarshalIndent(ev, "", " ")
	os.WriteFile(filepath.Join(verifDir, "evidence", prop+".json"), js, 0o644)
}

func relPos(p string) string { return strings.TrimPrefix(p, repoDir+"/") }

// effectClauseKey maps the name of an effect obligation (f#effect:<label>:<callee>[#n]) to the baseline key of its
// clause in that function (f#effect:<label>:*).
func effectClauseKey(name string) string {
	i := strings.LastIndex(name, ":")
	if i < 0 || !strings.Contains(name, "#effect:") {
		return name
	}
	return name[:i] + ":*"
}

func firstNonEmpty(xs ...string) string {
	for _, x := range xs {
		if x != "" {
			return x
		}
	}
	return ""
}

// boundedFinding looks up a recorded finding for the bounded-search obligation of a function.
func boundedFinding(ctx *Context, prop string, fr *FuncResult) *Finding {
	if ctx.findings == nil || fr.fc == nil {
		return nil
	}
	name := fr.fc.Func + "#bounded-search"
	for i := range ctx.findings.Findings {
		f := &ctx.findings.Findings[i]
		if f.Property == prop && f.Obligation == name && (f.Package == "" || f.Package == fr.fc.PkgPath) {
			return f
		}
	}
	return nil
}
