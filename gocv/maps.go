package main

import (
	"go/types"

	"golang.org/x/tools/go/ssa"
)

// mapLookup models m[k] for a map that the function under analysis never updates: the map is an uninterpreted total
// function (value, presence) of its identity and the key. As soon as the executed code contains a map update of the
// same map type, lookups fall back to unconstrained values (sound, imprecise).
func (e *Engine) mapLookup(f *frame, st *State, x *ssa.Lookup, base Val) (Val, bool) {
	if e.bv() {
		return nil, false
	}
	mt, ok := x.X.Type().Underlying().(*types.Map)
	if !ok {
		return nil, false
	}
	m, ok := base.(OpaqueV)
	if !ok {
		return nil, false
	}
	if e.mapsUpdated(f.fn, mt) || (e.top != nil && e.mapsUpdated(e.top, mt)) {
		return nil, false
	}
	ks, okK := e.scalarSort(mt.Key())
	vs, okV := e.scalarSort(mt.Elem())
	if _, isIface := mt.Elem().Underlying().(*types.Interface); isIface && okK {
		// interface-valued map (bucket name -> storage): values are opaque identities
		key := termOf(e.get(f, st, x.Index))
		hasF, valF := "uf_maphas_"+clean(ks), "uf_mapval_"+clean(ks)+"_U"
		e.declUF(hasF, "(U "+ks+") Bool")
		e.declUF(valF, "(U "+ks+") U")
		has := "(" + hasF + " " + m.T + " " + key + ")"
		e.fact(imp(eq(m.T, "nilU"), not(has)))
		v := OpaqueV{ite(has, "("+valF+" "+m.T+" "+key+")", "nilU")}
		if x.CommaOk {
			return TupleV{v, BoolV{has}}, true
		}
		return v, true
	}
	if !okK || !okV {
		return nil, false
	}
	key := termOf(e.get(f, st, x.Index))
	hasF := "uf_maphas_" + clean(ks)
	valF := "uf_mapval_" + clean(ks) + "_" + clean(vs)
	e.declUF(hasF, "(U "+ks+") Bool")
	e.declUF(valF, "(U "+ks+") "+vs)
	has := "(" + hasF + " " + m.T + " " + key + ")"
	val := "(" + valF + " " + m.T + " " + key + ")"
	// a nil map has no entries; an absent key reads as the zero value
	e.fact(imp(eq(m.T, "nilU"), not(has)))
	zero := termOf(e.zero(st, mt.Elem()))
	v := e.scalarVal(mt.Elem(), ite(has, val, zero))
	if x.CommaOk {
		return TupleV{v, BoolV{has}}, true
	}
	return v, true
}

// mapsUpdated reports whether fn (or a closure of it) stores into a map of type mt.
func (e *Engine) mapsUpdated(fn *ssa.Function, mt *types.Map) bool {
	if e.mapUpd == nil {
		e.mapUpd = map[*ssa.Function]map[string]bool{}
	}
	set, ok := e.mapUpd[fn]
	if !ok {
		set = map[string]bool{}
		var visit func(g *ssa.Function)
		visit = func(g *ssa.Function) {
			for _, b := range g.Blocks {
				for _, ins := range b.Instrs {
					if mu, ok := ins.(*ssa.MapUpdate); ok {
						set[mu.Map.Type().Underlying().String()] = true
					}
					if call, ok := ins.(ssa.CallInstruction); ok {
						if bi, ok := call.Common().Value.(*ssa.Builtin); ok && (bi.Name() == "delete" || bi.Name() == "clear") && len(call.Common().Args) > 0 {
							set[call.Common().Args[0].Type().Underlying().String()] = true
						}
					}
				}
			}
			for _, a := range g.AnonFuncs {
				visit(a)
			}
		}
		visit(fn)
		e.mapUpd[fn] = set
	}
	return set[mt.Underlying().String()]
}
