package main

import (
	"go/types"

	"golang.org/x/tools/go/ssa"
)

// Abstract model of package net's address parsing (trusted): parsing is a function of the text.
//
//	net.ParseIP(s)        nil iff !validIP(s); the address is identified by its text
//	net.ParseCIDR(s)      err == nil iff validCIDR(s); the network is cidrOf(s)
//	(*IPNet).Contains(ip) contains(network, text of ip)
func (e *Engine) trustedNet(callee *ssa.Function, args []Val, st *State) (Val, bool) {
	if e.bv() {
		return nil, false
	}
	switch callee.String() {
	case "net.ParseIP":
		s, ok := args[0].(StrV)
		if !ok {
			return nil, false
		}
		e.declUF("uf_validIP", "(String) Bool")
		arr := e.newArr(st, types.Typ[types.Uint8], true, "ip")
		delete(e.inputArrs, arr)
		if e.ipText == nil {
			e.ipText = map[*Arr]string{}
		}
		e.ipText[arr] = s.T
		ln := e.fresh("ip_len", "Int")
		e.fact("(or (= " + ln + " 4) (= " + ln + " 16))")
		return SliceV{Arr: arr, Off: "0", Len: ite("(uf_validIP "+s.T+")", ln, "0"), Nil: not("(uf_validIP " + s.T + ")")}, true
	case "net.ParseCIDR":
		s, ok := args[0].(StrV)
		if !ok {
			return nil, false
		}
		e.declUF("uf_validCIDR", "(String) Bool")
		e.declUF("uf_cidrOf", "(String) U")
		er := e.fresh("parsecidr_err", "Int")
		e.fact("(>= " + er + " 0)")
		e.fact(eq(eq(er, "0"), "(uf_validCIDR "+s.T+")"))
		e.fact(imp(not(eq(er, "0")), "(>= "+er+" 1000)"))
		e.fact(imp("(uf_validCIDR "+s.T+")", not(eq("(uf_cidrOf "+s.T+")", "nilU"))))
		ipArr := e.newArr(st, types.Typ[types.Uint8], true, "cidrip")
		delete(e.inputArrs, ipArr)
		netV := PtrV{Nil: not("(uf_validCIDR " + s.T + ")"), Elem: callee.Signature.Results().At(1).Type().(*types.Pointer).Elem(), Name: "cidr_" + clean(s.T)}
		if e.netTerm == nil {
			e.netTerm = map[string]string{}
		}
		e.netTerm[netV.Name] = "(uf_cidrOf " + s.T + ")"
		return TupleV{SliceV{Arr: ipArr, Off: "0", Len: e.fresh("iplen", "Int"), Nil: not("(uf_validCIDR " + s.T + ")")}, netV, ErrV{er}}, true
	case "(*net.IPNet).Contains":
		e.declUF("uf_cidrContains", "(U String) Bool")
		nt := ""
		switch n := args[0].(type) {
		case PtrV:
			nt = e.netTerm[n.Name]
			if nt == "" && len(n.Name) > 6 && n.Name[:6] == "boxed_" {
				nt = e.boxedTerm[n.Name]
			}
		case OpaqueV:
			nt = n.T
		}
		ip, ok := args[1].(SliceV)
		if nt == "" || !ok || ip.Arr == nil || e.ipText[ip.Arr] == "" {
			return nil, false
		}
		return BoolV{"(uf_cidrContains " + nt + " " + e.ipText[ip.Arr] + ")"}, true
	}
	return nil, false
}
