package main

// propDoc carries the per-property statements that go into the evidence file: which level the check
// claims and which clauses of the property are outside its reach.
type propDoc struct {
	Level       string
	Explanation string
	Assumptions []string
}

var propDocs = map[string]propDoc{}
