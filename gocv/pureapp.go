package main

import (
	"fmt"
	"go/types"
	"strings"

	"golang.org/x/tools/go/ssa"
)

// pureApp models a call of a function declared `//@ pure` as the application of one uninterpreted function per result
// to the flattened arguments. Only scalar (and error) results are supported.
func (e *Engine) pureApp(callee *ssa.Function, args []Val, st *State) (Val, bool) {
	var ts, ss []string
	for _, a := range args {
		t, s := e.flatTerms(st, a)
		if t == nil {
			if _, isNil := a.(TupleV); isNil {
				continue
			}
			return nil, false
		}
		ts, ss = append(ts, t...), append(ss, s...)
	}
	res := callee.Signature.Results()
	var out []Val
	for i := 0; i < res.Len(); i++ {
		rt := res.At(i).Type()
		sortS, ok := e.scalarSort(rt)
		opaque := false
		if !ok {
			if isError(rt) {
				sortS = "Int"
			} else if _, isIface := rt.Underlying().(*types.Interface); isIface {
				sortS, opaque = "U", true
			} else {
				return nil, false
			}
		}
		name := fmt.Sprintf("pure_%s_r%d", clean(callee.String()), i)
		key := name + "/" + strings.Join(ss, ",")
		if !e.ufs[key] {
			e.ufs[key] = true
			e.decls = append(e.decls, "(declare-fun "+name+" ("+strings.Join(ss, " ")+") "+sortS+")")
		}
		app := "(" + name + " " + strings.Join(ts, " ") + ")"
		if len(ts) == 0 {
			app = name
		}
		if opaque {
			out = append(out, OpaqueV{app})
			continue
		}
		if isError(rt) {
			e.fact("(>= " + app + " 0)")
			out = append(out, ErrV{app})
			continue
		}
		if isInteger(rt) && !e.bv() {
			e.fact(intRange(rt, app))
		}
		out = append(out, e.scalarVal(rt, app))
	}
	_ = types.Typ
	return pack(out), true
}
