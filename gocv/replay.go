package main

// Replay: a `sat` answer is turned into a Go test that calls the real function
// with the model's inputs and evaluates the lowered (executable) contract.

import (
	"bytes"
	"context"
	"encoding/json"
	"fmt"
	"go/types"
	"os"
	"os/exec"
	"path/filepath"
	"strings"
	"time"
)

func smtInt(v string) string {
	v = strings.TrimSpace(v)
	if strings.HasPrefix(v, "(- ") {
		return "-" + strings.TrimSuffix(strings.TrimPrefix(v, "(- "), ")")
	}
	return v
}

// smtStringToGo converts an SMT-LIB string literal into a Go string literal; ok is false when a
// character is not a byte (Go strings are byte sequences: such a model is not realisable).
func smtStringToGo(lit string) (string, bool) {
	if len(lit) < 2 || lit[0] != '"' {
		return `""`, true
	}
	body := strings.ReplaceAll(lit[1:len(lit)-1], `""`, `"`)
	var out []byte
	for i := 0; i < len(body); {
		if strings.HasPrefix(body[i:], "\\u{") {
			j := strings.IndexByte(body[i:], '}')
			var cp int
			fmt.Sscanf(body[i+3:i+j], "%x", &cp)
			if cp > 255 {
				return "", false
			}
			out = append(out, byte(cp))
			i += j + 1
			continue
		}
		if strings.HasPrefix(body[i:], "\\u") && i+6 <= len(body) {
			var cp int
			fmt.Sscanf(body[i+2:i+6], "%x", &cp)
			if cp > 255 {
				return "", false
			}
			out = append(out, byte(cp))
			i += 6
			continue
		}
		out = append(out, body[i])
		i++
	}
	return fmt.Sprintf("%q", string(out)), true
}

type renderer struct {
	e     *Engine
	pkg   *types.Package
	vals  map[string]string
	want  []string // terms still to be evaluated
	known bool
	bad   string
	imps  map[string]string
}

func (r *renderer) val(term string) string {
	if v, ok := r.vals[term]; ok {
		return v
	}
	if _, ok := litInt(term); ok {
		return term
	}
	if term == "true" || term == "false" {
		return term
	}
	r.want = append(r.want, term)
	r.known = false
	return "0"
}

func (r *renderer) qual(p *types.Package) string {
	if p == r.pkg {
		return ""
	}
	r.imps[p.Path()] = p.Name()
	return p.Name()
}

// render prints the Go literal of an input value under the model.
func (r *renderer) render(v Val, t types.Type, st *State) string {
	ts := types.TypeString(t, r.qual)
	switch x := v.(type) {
	case IntV:
		return ts + "(" + smtInt(r.val(x.T)) + ")"
	case BoolV:
		return ts + "(" + r.val(x.T) + ")"
	case StrV:
		g, ok := smtStringToGo(r.val(x.T))
		if !ok {
			r.bad = "model uses non-byte characters"
		}
		return ts + "(" + g + ")"
	case TimeV:
		r.imps["time"] = "time"
		return "time.Unix(0, " + smtInt(r.val(x.T)) + ").UTC()"
	case ErrV:
		n := smtInt(r.val(x.T))
		if n == "0" {
			return "error(nil)"
		}
		r.imps["errors"] = "errors"
		return "errors.New(\"gocv-model-error-" + n + "\")"
	case OptV:
		if r.val(x.Nil) == "true" {
			return "(" + ts + ")(nil)"
		}
		elem := t.Underlying().(*types.Pointer).Elem()
		return "gocvPtr(" + r.render(r.e.optSnapshot(x, st), elem, st) + ")"
	case StructV:
		var fs []string
		for i := range x.F {
			f := x.Typ.Field(i)
			if x.F[i] == nil && x.Sym != "" {
				if _, named := r.e.named[x.Sym+"_"+f.Name()]; !named {
					continue // never read by the function: leave at zero value
				}
			}
			fv := r.e.field(x, i)
			if _, isOpaque := fv.(OpaqueV); isOpaque {
				continue
			}
			if !f.Exported() && f.Pkg() != r.pkg {
				continue
			}
			fs = append(fs, f.Name()+": "+r.render(fv, f.Type(), st))
		}
		return ts + "{" + strings.Join(fs, ", ") + "}"
	case PtrV:
		if r.val(x.Nil) == "true" {
			return "(" + ts + ")(nil)"
		}
		elem := t.Underlying().(*types.Pointer).Elem()
		c := x.Cell
		if c == nil {
			c = r.e.ptrCell[x.Name]
		}
		var content Val
		if c != nil {
			if v, ok := r.e.inputCells[c]; ok {
				content = v
			} else if v, ok := st.cells[c]; ok {
				content = v
			}
		}
		if content == nil {
			stt, ok := elem.Underlying().(*types.Struct)
			if !ok {
				return "nil"
			}
			content = StructV{Typ: stt, F: make([]Val, stt.NumFields()), Sym: x.Name}
		}
		return "&" + r.render(content, elem, st)
	case SliceV:
		if r.val(x.Nil) == "true" {
			return ts + "(nil)"
		}
		n := 0
		fmt.Sscanf(smtInt(r.val(x.Len)), "%d", &n)
		if n > 64 {
			r.bad = fmt.Sprintf("model needs a slice of length %d", n)
			n = 0
		}
		elem := t.Underlying().(*types.Slice).Elem()
		var es []string
		for i := 0; i < n; i++ {
			ev := r.e.arrRead(st, x.Arr, r.e.addIdx(x.Off, fmt.Sprint(i)), elem, "")
			es = append(es, r.render(ev, elem, st))
		}
		return ts + "{" + strings.Join(es, ", ") + "}"
	case OpaqueV:
		return "(" + ts + ")(nil)"
	}
	return "nil /* unsupported " + ts + " */"
}

// replayObligation builds and runs the replay test of a failed obligation.
// replayObligation first replays the solver's model through the generated test; where that is not possible (or does
// not confirm) and a hand-written driver exists for the obligation, the driver is run against the real code.
func replayObligation(ctx *Context, r *OblResult, outDir string) (bool, string) {
	confirmed, log := replayModel(ctx, r, outDir)
	if confirmed {
		return true, log
	}
	drv := filepath.Join(verifDir, "replay", "drivers", safeName(r.ob.Name)+".go.txt")
	src, err := os.ReadFile(drv)
	if err != nil {
		// a driver may serve every obligation of one contract label (method-set templates): label_<label>.go.txt
		label := r.ob.Label
		if r.ob.Kind == "effect" {
			if i := strings.LastIndex(label, ":"); i > 0 && strings.Count(label, ":") >= 2 {
				label = label[:i]
			}
		}
		drv = filepath.Join(verifDir, "replay", "drivers", "label_"+safeName(label)+".go.txt")
		src, err = os.ReadFile(drv)
	}
	if err != nil {
		return false, log
	}
	c2, log2 := runReplayTest(ctx, r.fr.fc.PkgPath, string(src), filepath.Join(outDir, "driver"))
	return c2, log + "\n--- hand-written driver " + drv + " ---\n" + log2
}

func replayModel(ctx *Context, r *OblResult, outDir string) (confirmed bool, log string) {
	defer func() {
		if x := recover(); x != nil {
			confirmed, log = false, fmt.Sprint("inputs not renderable: ", x)
		}
	}()
	fr := r.fr
	e := fr.eng
	fn := fr.fn
	if fn == nil {
		return false, "no function"
	}
	if r.ob.Kind == "effect" {
		return replayEffect(ctx, r, outDir)
	}
	if fn.Parent() != nil {
		return false, "anonymous function: no direct replay (obligation reported with the solver's model only)"
	}
	sig := fn.Signature
	for i := 0; i < sig.Params().Len(); i++ {
		if _, isIface := sig.Params().At(i).Type().Underlying().(*types.Interface); isIface {
			if _, ok := fr.args[len(fr.args)-sig.Params().Len()+i].(OpaqueV); ok {
				// interface-typed inputs are passed as nil: fine when the function does not use them on the failing path
			}
		}
	}
	entry := e.entryState
	// prefer small models
	var small []string
	for _, a := range fr.args {
		if sv, ok := a.(SliceV); ok {
			small = append(small, "(<= "+sv.Len+" 3)")
		}
	}
	for _, m := range e.inputArrs {
		_ = m
	}
	rd := &renderer{e: e, pkg: fn.Pkg.Pkg, vals: map[string]string{}, imps: map[string]string{"testing": "testing"}}
	base := []string{r.ob.Reach, not(r.ob.Goal)}
	extra := append(append([]string{}, base...), small...)
	to := 20 * time.Second
	if _, ok := getValues(e.decls, r.hyps(), extra, nil, to); !ok {
		extra = base
	}
	var lits []string
	ptypes := paramTypes(sig)
	for round := 0; round < 12; round++ {
		rd.known, rd.want = true, nil
		lits = nil
		for i, a := range fr.args {
			lits = append(lits, rd.render(a, ptypes[i], entry))
		}
		if rd.known {
			break
		}
		// pin what is known so that later rounds stay in the same model
		var pins []string
		for t, v := range rd.vals {
			pins = append(pins, "(= "+t+" "+v+")")
		}
		vals, ok := getValues(e.decls, r.hyps(), append(append([]string{}, extra...), pins...), rd.want, to)
		if !ok {
			return false, "model evaluation failed"
		}
		for k, v := range vals {
			rd.vals[k] = v
		}
	}
	if rd.bad != "" {
		return false, "model not realisable: " + rd.bad
	}
	var decls strings.Builder
	var names []string
	for i := range fr.args {
		n := fmt.Sprintf("a%d", i)
		names = append(names, n)
		fmt.Fprintf(&decls, "\t%s := %s\n\told_%s := %s\n\t_ = old_%s\n", n, lits[i], n, lits[i], n)
	}
	var resNames []string
	for i := 0; i < sig.Results().Len(); i++ {
		resNames = append(resNames, fmt.Sprintf("r%d", i))
	}
	call := ""
	if sig.Recv() != nil {
		call = fmt.Sprintf("%s.%s(%s)", names[0], fn.Name(), strings.Join(names[1:], ", "))
	} else {
		call = fmt.Sprintf("%s(%s)", fn.Name(), strings.Join(names, ", "))
	}
	assign := ""
	if len(resNames) > 0 {
		assign = strings.Join(resNames, ", ") + " := "
	}
	// contract evaluation: lowered postconditions with parameters bound by name
	sp := ctx.pkgs[fr.fc.PkgPath]
	postExpr := func(pf postFn) (string, bool) {
		post := sp.Func(pf.name)
		if post == nil {
			return "", false
		}
		rn := resultNames(sig)
		var cargs []string
		for _, p := range post.Params {
			bound := false
			for i, fp := range fn.Params {
				if fp.Name() == p.Name() {
					// parameters keep their entry values, but what they point to is seen in the state after the call
					cargs = append(cargs, names[i])
					bound = true
				}
			}
			for i, n := range rn {
				if !bound && n == p.Name() {
					cargs = append(cargs, resNames[i])
					bound = true
				}
			}
			if !bound && strings.HasPrefix(p.Name(), "gocvold_") {
				var k int
				fmt.Sscanf(p.Name(), "gocvold_%d", &k)
				of := sp.Func(pf.olds[k])
				var oargs []string
				for _, op := range of.Params {
					for i, fp := range fn.Params {
						if fp.Name() == op.Name() {
							oargs = append(oargs, "old_"+names[i])
						}
					}
				}
				vn := fmt.Sprintf("%s_%s", p.Name(), safeName(pf.label))
				fmt.Fprintf(&decls, "\t%s := %s(%s)\n", vn, pf.olds[k], strings.Join(oargs, ", "))
				cargs = append(cargs, vn)
				bound = true
			}
			if !bound {
				return "", false
			}
		}
		return fmt.Sprintf("%s(%s)", pf.name, strings.Join(cargs, ", ")), true
	}
	var checks []string
	for _, pf := range fr.fc.posts {
		if r.ob.Kind == "ensures" && pf.name != r.ob.Post {
			continue
		}
		ex, ok := postExpr(pf)
		if !ok {
			if r.ob.Kind == "ensures" {
				return false, "postcondition " + pf.name + " cannot be bound in a replay"
			}
			continue
		}
		checks = append(checks, fmt.Sprintf("\tif !%s {\n\t\tt.Fatalf(\"REPLAY-CONFIRMED: contract clause %s violated by the real code; results: %%v\", []any{%s})\n\t}\n", ex, pf.label, strings.Join(resNames, ", ")))
	}
	pre := ""
	if fr.fc.hasPre {
		pf := sp.Func(fr.fc.preFunc())
		var cargs []string
		for _, p := range pf.Params {
			for i, fp := range fn.Params {
				if fp.Name() == p.Name() {
					cargs = append(cargs, "old_"+names[i])
				}
			}
		}
		if len(cargs) == len(pf.Params) {
			pre = fmt.Sprintf("\tif !%s(%s) {\n\t\tt.Skip(\"REPLAY-PRECONDITION-NOT-MET\")\n\t}\n", fr.fc.preFunc(), strings.Join(cargs, ", "))
		}
	}
	// a panic of the real code confirms bounds / nil / explicit-panic obligations; an overflow obligation is confirmed
	// when the real code, run on the model's inputs, panics or violates one of the function's postconditions
	body := pre
	if r.ob.Kind != "ensures" {
		// only a panic of the kind the obligation speaks about confirms it (interface-typed inputs are passed as nil
		// in a replay, so a nil dereference of such an input says nothing about the code)
		want := "\\x00never"
		switch {
		case r.ob.Kind == "bounds":
			want = "out of range"
		case r.ob.Kind == "nopanic" && strings.Contains(r.ob.Label, "div-by-zero"):
			want = "divide by zero"
		case r.ob.Kind == "nopanic" && strings.Contains(r.ob.Label, "explicit-panic"):
			want = ""
		}
		body += "\tdefer func() {\n\t\tif x := recover(); x != nil {\n\t\t\tmsg := fmt.Sprint(x)\n\t\t\tif strings.Contains(msg, \"" + want + "\") && !(\"" + want + "\" == \"\" && strings.Contains(msg, \"nil pointer\")) {\n\t\t\t\tt.Fatalf(\"REPLAY-CONFIRMED: real code panics: %v\", x)\n\t\t\t}\n\t\t\tt.Logf(\"REPLAY-NOT-CONFIRMED (unrelated panic: %v)\", x)\n\t\t}\n\t}()\n"
		rd.imps["fmt"] = "fmt"
		rd.imps["strings"] = "strings"
	}
	body += "\t" + assign + call + "\n"
	for _, rn := range resNames {
		body += "\t_ = " + rn + "\n"
	}
	body += strings.Join(checks, "") + "\tt.Logf(\"REPLAY-NOT-CONFIRMED\")\n"
	var imp strings.Builder
	// imports needed by the rendered literals
	for p, n := range rd.imps {
		fmt.Fprintf(&imp, "\t%s %q\n", n, p)
	}
	src := fmt.Sprintf(`//go:build verif

package %s

import (
%s)

func gocvPtr[T any](v T) *T { return &v }

// Replay of obligation %s
func TestGocvReplay(t *testing.T) {
%s%s}
`, fn.Pkg.Pkg.Name(), imp.String(), r.ob.Name, decls.String(), body)
	return runReplayTest(ctx, fr.fc.PkgPath, src, outDir)
}

func paramTypes(sig *types.Signature) []types.Type {
	var out []types.Type
	if sig.Recv() != nil {
		out = append(out, sig.Recv().Type())
	}
	for i := 0; i < sig.Params().Len(); i++ {
		out = append(out, sig.Params().At(i).Type())
	}
	return out
}

// runReplayTest injects an in-package test through a build overlay and runs it against the real code.
func runReplayTest(ctx *Context, pkgPath, src, outDir string) (bool, string) {
	// a replay of one solver model finishes in milliseconds: 60 s catches a wedged one
	return runReplayTestTimeout(ctx, pkgPath, src, outDir, 60*time.Second)
}

// runReplayTestTimeout runs an injected in-package test against the working tree; testTimeout bounds the test binary
// (bounded searches need minutes under load, a single replayed model does not).
func runReplayTestTimeout(ctx *Context, pkgPath, src, outDir string, testTimeout time.Duration) (bool, string) {
	os.MkdirAll(outDir, 0o755)
	tp := ctx.tpkgs[pkgPath]
	if tp == nil {
		return false, "package types not loaded"
	}
	dir := pkgDir(tp)
	testPath := filepath.Join(outDir, "zz_gocv_replay_test.go")
	os.WriteFile(testPath, []byte(src), 0o644)
	ov := map[string]string{filepath.Join(dir, "zz_gocv_replay_test.go"): testPath}
	// the package's own tests are replaced by empty files: they pull in heavy dependencies
	empty := filepath.Join(outDir, "empty_test.go")
	entries, _ := os.ReadDir(dir)
	for _, en := range entries {
		if strings.HasSuffix(en.Name(), "_test.go") {
			data, _ := os.ReadFile(filepath.Join(dir, en.Name()))
			pkgName := tp.Name
			if strings.Contains(string(data), "package "+tp.Name+"_test") {
				pkgName = tp.Name + "_test"
			}
			p := filepath.Join(outDir, "empty_"+pkgName+".go")
			os.WriteFile(p, []byte("package "+pkgName+"\n"), 0o644)
			ov[filepath.Join(dir, en.Name())] = p
		}
	}
	_ = empty
	i := 0
	for target, content := range ctx.overlay {
		i++
		p := filepath.Join(outDir, fmt.Sprintf("ov%d_%s", i, filepath.Base(target)))
		os.WriteFile(p, content, 0o644)
		ov[target] = p
	}
	js, _ := json.Marshal(map[string]any{"Replace": ov})
	ovPath := filepath.Join(outDir, "overlay.json")
	os.WriteFile(ovPath, js, 0o644)
	// the outer limit also covers a cold build of the package (minutes for the sqlite-dependent ones)
	cctx, cancel := context.WithTimeout(context.Background(), testTimeout+10*time.Minute)
	defer cancel()
	cmd := exec.CommandContext(cctx, "go", "test", "-tags", "verif", "-overlay", ovPath, "-vet=off", "-timeout", fmt.Sprintf("%ds", int(testTimeout.Seconds())), "-count=1", "-run", "^TestGocvReplay$", "-v", pkgPath)
	cmd.Dir = repoDir
	var out bytes.Buffer
	cmd.Stdout, cmd.Stderr = &out, &out
	cmd.Run()
	return strings.Contains(out.String(), "REPLAY-CONFIRMED"), out.String()
}
