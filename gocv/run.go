package main

import (
	"fmt"
	"go/token"
	"go/types"
	"strings"

	"golang.org/x/tools/go/ssa"
)

type FuncResult struct {
	fc        *FuncContract
	fn        *ssa.Function
	eng       *Engine
	undecided string
	searchNote string
	searchInputs int    // generated inputs of the bounded stand-in search (0 = not run)
	searchGenerated int // inputs actually generated (a search stops at the first violation)
	searchTried  int    // ... of which satisfied the precondition
	searchDistinct int  // ... of which were pairwise different (hash of a canonical rendering)
	searchResult string // no-violation-found | violation-found | known-finding | search-did-not-finish
	args      []Val
	bind      []Val
}

func newEngine(c *Context, sp *ssa.Package, fn *ssa.Function, fc *FuncContract) *Engine {
	e := &Engine{ctx: c, prog: c.prog, pkg: sp, fset: c.fset, top: fn, fc: fc, ufs: map[string]bool{},
		named: map[string]Val{}, ptrCell: map[string]*Cell{}, forced: map[*ssa.If]bool{}, oblNames: map[string]int{},
		inputArrs: map[*Arr]map[string]string{}, inputCells: map[*Cell]Val{}, inputState: newState(),
		effectMatches: map[string]int{}, volatile: map[*Cell]bool{}, trustedUsed: map[string]bool{}, havocked: map[string]bool{}, recDefs: map[string]bool{}, boxed: map[string]Val{}}
	e.cfg = FuncCfg{Arith: "none", Inline: map[string]bool{}, Havoc: map[string]bool{}}
	if fc != nil {
		e.cfg.Arith = fc.Arith
		e.cfg.Effects = fc.Effects
		e.cfg.NoPanic = fc.NoPanic
		for _, n := range fc.Inline {
			e.cfg.Inline[n] = true
		}
		for _, n := range fc.Havoc {
			e.cfg.Havoc[n] = true
		}
		e.noInline = map[string]bool{}
		for _, ec := range fc.EffectCl {
			for _, p := range append([]*callPattern{ec.Every, ec.Needs}, ec.MoreNeeds...) {
				if p != nil && p.static != "" {
					e.noInline[p.static] = true
				}
			}
		}
		// callees named by result_of(...) / called(...) must stay visible as events, too
		for _, pf := range fc.posts {
			for _, cr := range pf.calls {
				if cr.callee != "" && cr.callee != "<dynamic>" {
					e.noInline[cr.callee] = true
				}
			}
		}
	}
	return e
}

// resultNames follows the naming rule of the contract generator.
func resultNames(sig *types.Signature) []string {
	var out []string
	for i := 0; i < sig.Results().Len(); i++ {
		r := sig.Results().At(i)
		name := r.Name()
		if name == "" || name == "_" {
			switch {
			case isError(r.Type()):
				name = "err"
			case i == 0:
				name = "result"
			default:
				name = fmt.Sprintf("result%d", i)
			}
		}
		out = append(out, name)
	}
	return out
}

// bindLowered builds the argument list of a lowered contract function by parameter name.
func (e *Engine) bindLowered(low *ssa.Function, prov func(name string) (Val, bool)) []Val {
	var out []Val
	for _, p := range low.Params {
		v, ok := prov(p.Name())
		if !ok {
			panic(unsupported{"contract function " + low.Name() + ": no binding for " + p.Name()})
		}
		out = append(out, v)
	}
	return out
}

// entryProvider binds names to the entry values of parameters and captured variables of fn.
func (e *Engine) entryProvider(fn *ssa.Function, args, bind []Val, st *State) func(string) (Val, bool) {
	return func(name string) (Val, bool) {
		for i, p := range fn.Params {
			if p.Name() == name {
				return args[i], true
			}
		}
		for i, fv := range fn.FreeVars {
			if fv.Name() == name && i < len(bind) {
				if v := e.load(st, bind[i], fv.Type().(*types.Pointer).Elem(), "true", token.NoPos); v != nil {
					return v, true
				}
			}
		}
		// a parameter of a lexically enclosing function that this closure does not capture (any more): the contract may
		// still speak about it; from the closure's point of view its value is arbitrary
		if e.ctxParent == nil {
			for par := fn.Parent(); par != nil; par = par.Parent() {
				for _, p := range par.Params {
					if p.Name() == name {
						key := "enclosing:" + par.Name() + ":" + name
						if e.enclosing == nil {
							e.enclosing = map[string]Val{}
						}
						if v, ok := e.enclosing[key]; ok {
							return v, true
						}
						v := e.symbolic(e.inputState, p.Type(), name)
						e.enclosing[key] = v
						return v, true
					}
				}
			}
		}
		// closure verified in the context of its parent: the parent's parameters are in scope as well
		if e.ctxParent != nil && fn.Parent() == e.ctxParent {
			for i, p := range e.ctxParent.Params {
				if p.Name() == name && i < len(e.ctxParentArgs) {
					return e.ctxParentArgs[i], true
				}
			}
		}
		return nil, false
	}
}

// evalPre evaluates the lowered precondition of fc for a call of fn with args in state st.
func (e *Engine) evalPre(sp *ssa.Package, fc *FuncContract, fn *ssa.Function, args, bind []Val, st *State) (string, bool) {
	if !fc.hasPre {
		return "true", false
	}
	pre := sp.Func(fc.preFunc())
	if pre == nil {
		return "true", false
	}
	as := e.bindLowered(pre, e.entryProvider(fn, args, bind, st))
	return e.pureCallIn(sp, pre, as, nil, st)[0].(BoolV).T, true
}

// evalPostNamed evaluates one lowered postcondition: parameters are entry values, captured variables and the heap are
// the exit state, old(...) expressions are evaluated in the entry state.
func (e *Engine) evalPostNamed(sp *ssa.Package, pf postFn, fn *ssa.Function, args, bind []Val, rs []Val, entry, exit *State) string {
	post := sp.Func(pf.name)
	if post == nil {
		panic(unsupported{"missing lowered postcondition " + pf.name})
	}
	rnames := resultNames(fn.Signature)
	olds := map[string]Val{}
	for i, on := range pf.olds {
		of := sp.Func(on)
		if of == nil {
			panic(unsupported{"missing lowered old() function " + on})
		}
		oa := e.bindLowered(of, e.entryProvider(fn, args, bind, entry))
		v := e.pureCallIn(sp, of, oa, nil, entry)[0]
		if sv, ok := v.(SliceV); ok && sv.Arr != nil {
			na := &Arr{Elem: sv.Arr.Elem, Leaves: sv.Arr.Leaves, Name: sv.Arr.Name + "_old", Orig: sv.Arr}
			e.ncell++
			na.id = e.ncell
			m := map[string]string{}
			for k, t := range e.arr(entry, sv.Arr) {
				m[k] = t
			}
			exit.arrs[na] = m
			v = SliceV{Arr: na, Off: sv.Off, Len: sv.Len, Nil: sv.Nil}
		}
		olds[fmt.Sprintf("gocvold_%d", i)] = v
	}
	ep := e.entryProvider(fn, args, bind, exit)
	as := e.bindLowered(post, func(name string) (Val, bool) {
		if v, ok := olds[name]; ok {
			return v, true
		}
		if strings.HasPrefix(name, "gocvcall_") {
			var k int
			fmt.Sscanf(name, "gocvcall_%d", &k)
			if k < len(pf.calls) {
				for _, p := range post.Params {
					if p.Name() == name {
						ref := pf.calls[k]
						if ref.dynFn != "" {
							df := sp.Func(ref.dynFn)
							if df == nil {
								return nil, false
							}
							dv := e.pureCallIn(sp, df, e.bindLowered(df, e.entryProvider(fn, args, bind, entry)), nil, entry)[0]
							ov, isO := dv.(OpaqueV)
							if !isO {
								return nil, false
							}
							ref.dynT = ov.T
						}
						return e.callRefValue(ref, exit, p.Type()), true
					}
				}
			}
		}
		// parameters shadow results of the same name (cannot happen in Go), results next
		if v, ok := ep(name); ok {
			return v, true
		}
		for i, rn := range rnames {
			if rn == name && i < len(rs) {
				return rs[i], true
			}
		}
		return nil, false
	})
	return e.pureCallIn(sp, post, as, nil, exit)[0].(BoolV).T
}

// callContract support: postconditions of a callee applied at a call site.
func (e *Engine) evalPost(cpkg *ssa.Package, post *ssa.Function, pf postFn, fc *FuncContract, callee *ssa.Function, args []Val, rs []Val, entry *State, exit *State) string {
	return e.evalPostNamed(cpkg, pf, callee, args, nil, rs, entry, exit)
}

// setupInputs creates the symbolic arguments and captured variables of the function under contract.
func (e *Engine) setupInputs(st *State, fn *ssa.Function) (args, bind []Val) {
	for i, p := range fn.Params {
		v := e.symbolic(st, p.Type(), p.Name())
		if pv, ok := v.(PtrV); ok && i == 0 && fn.Signature.Recv() != nil {
			pv.Nil = "false" // receivers are non-nil (assumption)
			v = pv
		}
		args = append(args, v)
	}
	for _, fv := range fn.FreeVars {
		elem := fv.Type().(*types.Pointer).Elem()
		c := e.newCell(elem, fv.Name())
		st.cells[c] = e.symbolic(st, elem, fv.Name())
		e.inputCells[c] = st.cells[c]
		if pv, ok := st.cells[c].(PtrV); ok && fn.Parent() != nil && fn.Parent().Signature.Recv() != nil && fn.Parent().Params[0].Name() == fv.Name() {
			pv.Nil = "false"
			st.cells[c] = pv
			e.inputCells[c] = pv
		}
		if _, ok := e.scalarSort(elem); ok {
			bind = append(bind, OptV{Nil: "false", Cell: c, Elem: elem})
		} else if _, ok := elem.Underlying().(*types.Struct); ok && !isTime(elem) {
			bind = append(bind, PtrV{Nil: "false", Cell: c, Elem: elem, Name: fv.Name() + "#fv"})
		} else {
			bind = append(bind, AddrV{Cell: c})
		}
	}
	return
}

// verifyFunc runs the function under contract and collects its obligations.
func (c *Context) verifyFunc(fc *FuncContract) (res *FuncResult) {
	res = &FuncResult{fc: fc}
	sp := c.pkgs[fc.PkgPath]
	if sp == nil {
		res.undecided = "package not loaded: " + fc.PkgPath
		return
	}
	if fc.Broken != "" {
		res.undecided = fc.Broken
		return
	}
	fn := c.lookupFunc(sp, fc.Func)
	if fn == nil || fn.Blocks == nil {
		res.undecided = "function not found (renamed or removed?)"
		return
	}
	res.fn = fn
	e := newEngine(c, sp, fn, fc)
	res.eng = e
	defer func() {
		if r := recover(); r != nil {
			switch x := r.(type) {
			case unsupported:
				res.undecided = "outside the modelled subset: " + x.why
			case mergeFail:
				res.undecided = "state merge failed: " + x.why
			default:
				if os_getenv("GOCV_PANIC") != "" {
					panic(r)
				}
				res.undecided = fmt.Sprint("engine error: ", r)
			}
		}
	}()
	st := newState()
	args, bind := e.setupInputs(st, fn)
	if fc.Context && fn.Parent() != nil {
		// closure verified in the context of its enclosing function: the parent runs first (its own obligations are
		// not part of this contract), the closure then starts from the bindings and the heap the parent left
		parent := fn.Parent()
		pst := newState()
		pargs, pbind := e.setupInputs(pst, parent)
		e.quiet++
		pvals, pout, preach := e.execFunc(parent, pargs, pbind, pst, "true", false)
		e.quiet--
		var fv *FuncV
		var find func(v Val)
		find = func(v Val) {
			switch x := v.(type) {
			case FuncV:
				if x.Fn == fn && fv == nil {
					fv = &x
				}
			case OpaqueV:
				if b, ok := e.boxed[x.T]; ok {
					find(b)
				}
			case TupleV:
				for _, y := range x {
					find(y)
				}
			}
		}
		for _, v := range pvals {
			find(v)
		}
		if fv == nil {
			res.undecided = "context: the enclosing function does not return this closure on a single merged path"
			return
		}
		e.fact(preach)
		st = pout
		args = nil
		for _, p := range fn.Params {
			args = append(args, e.symbolic(st, p.Type(), p.Name()))
		}
		bind = fv.Bind
		e.ctxParent, e.ctxParentArgs = parent, pargs
		e.events = nil
	}
	res.args, res.bind = args, bind
	if pre, ok := e.evalPre(sp, fc, fn, args, bind, st); ok {
		e.fact(pre)
	}
	entry := st.clone()
	e.entryArgs, e.entryState = args, entry
	e.hist = histHome{pkg: sp, bind: bind}
	vals, out, reach := e.execFunc(fn, args, bind, st, "true", true)
	e.exitVals, e.exitState, e.exitReach = vals, out, reach
	coverFacts := len(e.facts) // the vacuity check looks at what the body assumes, not at postconditions assumed after being asserted
	if reach != "false" {
		for _, pf := range fc.postFuncs() {
			goal := e.evalPostNamed(sp, pf, fn, args, bind, vals, entry, out)
			if ob := e.oblige("ensures", pf.label, reach, goal, fn.Pos()); ob != nil {
				ob.Post = pf.name
			}
		}
	}
	if len(fc.EffectCl) > 0 {
		e.effectObligations(sp, fc, fn, args, bind)
	}
	if reach != "false" && fc.Frame {
		e.frameObligations(fc, fn, args, out, reach)
	}
	// vacuity: the precondition together with everything assumed on the way must leave some return reachable
	e.obls = append(e.obls, Oblig{Name: fnDisplayName(fn) + "#cover:return-reachable", Kind: "cover", Reach: reach, Goal: "false", NFacts: coverFacts, Pos: c.fset.Position(fn.Pos()), Expect: "sat"})
	return
}

func propOfLabel(label string) string {
	id, _, ok := strings.Cut(label, ":")
	if ok {
		return id
	}
	return ""
}
