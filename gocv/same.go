package main

import "fmt"

// sameIdentity is the meaning of same(a, b) in contracts: a and b are one and the same map, pointer or slice. Where
// identity cannot be established it answers with an under-approximation (both nil), so same() must only be used in
// positive positions.
func (e *Engine) sameIdentity(a, b Val) string {
	switch x := a.(type) {
	case OpaqueV:
		if y, ok := b.(OpaqueV); ok {
			return eq(x.T, y.T)
		}
	case MapV:
		if y, ok := b.(MapV); ok {
			if x.Cell != nil && x.Cell == y.Cell {
				return "true"
			}
			if x.Cell == nil && y.Cell == nil && x.Has == y.Has && x.Val == y.Val && x.Nil == y.Nil {
				return "true"
			}
			return and(x.Nil, y.Nil)
		}
	case SliceV:
		if y, ok := b.(SliceV); ok {
			if x.Arr == y.Arr {
				return and(eq(x.Off, y.Off), eq(x.Len, y.Len), eq(x.Nil, y.Nil))
			}
			return and(x.Nil, y.Nil)
		}
	case PtrV:
		if y, ok := b.(PtrV); ok {
			if x.Cell != nil && x.Cell == y.Cell || x.Cell == nil && y.Cell == nil && x.Name == y.Name {
				return eq(x.Nil, y.Nil)
			}
			return and(x.Nil, y.Nil)
		}
	case OptV:
		if y, ok := b.(OptV); ok {
			if x.Cell != nil && x.Cell == y.Cell {
				return eq(x.Nil, y.Nil)
			}
			return and(x.Nil, y.Nil)
		}
	}
	panic(unsupported{fmt.Sprintf("same(%T, %T)", a, b)})
}
