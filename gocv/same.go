package main

import "fmt"

// sameIdentity is the meaning of same(a, b) in contracts: a and b are one and the same map or pointer; for slices:
// the same slice value (offset, length, nil-ness and contents). Where
// identity cannot be established it answers with an under-approximation (both nil), so same() must only be used in
// positive positions.
func (e *Engine) sameIdentity(st *State, a, b Val) string {
	e.sameState = st
	switch x := a.(type) {
	case OpaqueV:
		if y, ok := b.(OpaqueV); ok {
			return eq(x.T, y.T)
		}
		if _, ok := b.(FuncV); ok {
			return e.fresh("samefn", "Bool")
		}
	case MapV:
		if y, ok := b.(MapV); ok {
			if x.Cell != nil && x.Cell == y.Cell {
				return "true"
			}
			if x.Cell == nil && y.Cell == nil && x.Has == y.Has && x.Val == y.Val && x.Nil == y.Nil {
				return "true"
			}
			return and(x.Nil, y.Nil)
		}
	case SliceV:
		if y, ok := b.(SliceV); ok {
			ax, ay := x.Arr, y.Arr
			if ax != nil && ax.Orig != nil {
				ax = ax.Orig // old(...) snapshot: identity is that of the array it was taken from
			}
			if ay != nil && ay.Orig != nil {
				ay = ay.Orig
			}
			if ax == ay && ax == x.Arr && ay == y.Arr {
				return and(eq(x.Off, y.Off), eq(x.Len, y.Len), eq(x.Nil, y.Nil))
			}
			// different symbolic arrays (a value merged over several paths, an old() snapshot): the same slice value,
			// i.e. equal offset, length, nil-ness and contents
			if x.Arr != nil && y.Arr != nil && len(x.Arr.Leaves) == len(y.Arr.Leaves) {
				mx, my := e.arr(e.sameState, x.Arr), e.arr(e.sameState, y.Arr)
				cs := []string{eq(x.Off, y.Off), eq(x.Len, y.Len), eq(x.Nil, y.Nil)}
				for _, l := range x.Arr.Leaves {
					cs = append(cs, eq(mx[l.key], my[l.key]))
				}
				return and(cs...)
			}
			return and(x.Nil, y.Nil)
		}
	case PtrV:
		if y, ok := b.(PtrV); ok {
			if x.Cell != nil && x.Cell == y.Cell || x.Cell == nil && y.Cell == nil && x.Name == y.Name {
				return eq(x.Nil, y.Nil)
			}
			return and(x.Nil, y.Nil)
		}
	case FuncV:
		if y, ok := b.(FuncV); ok {
			// two function values are the same when they are the same function over the same captured variables; two
			// different function literals (or functions) never are
			if x.Fn != y.Fn {
				return "false"
			}
			if len(x.Bind) == 0 && len(y.Bind) == 0 {
				return "true"
			}
			return e.fresh("samefn", "Bool")
		}
		if _, ok := b.(OpaqueV); ok {
			return e.fresh("samefn", "Bool")
		}
	case OptV:
		if y, ok := b.(OptV); ok {
			if x.Cell != nil && x.Cell == y.Cell {
				return eq(x.Nil, y.Nil)
			}
			return and(x.Nil, y.Nil)
		}
	}
	panic(unsupported{fmt.Sprintf("same(%T, %T)", a, b)})
}
