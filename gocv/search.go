package main

// Bounded concrete search: the lowered (executable) contract of a function is used as an oracle on randomly generated
// small inputs of the REAL function. It stands in where the deductive check cannot decide (function fallen outside
// the modelled subset after an edit, solver model that the replay could not realise). It can only confirm violations;
// finding nothing proves nothing and is reported as such (bounded, never counted as proved).

import (
	"fmt"
	"go/types"
	"strings"
	"time"
)

const searchGenSrc = `
var gocvStrings = []string{"", "a", "b", "*", "a*", "*a", "a*b", "ab", "aab", "abab", "/", "-", "a-1", "x-amz-*", "x-amz-id", "https://a.b", "https://*.b", "A", "Ab", " a ", "0", "7", "-1", "bytes", "\"d41d8cd98f00b204e9800998ecf8427e\"", "\"d41d8cd98f00b204e9800998ecf8427e-1\""}
var gocvInts = []int64{0, 1, 2, 3, 5, 7, 10, 16, 17, 100, 1000, -1, -2, 4095, 4096, 4097, 1 << 20, 1<<31 - 1, 1 << 31, 1<<62, 1<<63 - 1, -1 << 63}

func gocvGen(rng *rand.Rand, t reflect.Type, depth int) reflect.Value {
	v := reflect.New(t).Elem()
	switch t.Kind() {
	case reflect.Bool:
		v.SetBool(rng.Intn(2) == 0)
	case reflect.Int, reflect.Int8, reflect.Int16, reflect.Int32, reflect.Int64:
		n := gocvInts[rng.Intn(len(gocvInts))]
		if rng.Intn(3) == 0 {
			n = int64(rng.Intn(40))
		}
		if v.OverflowInt(n) {
			n = int64(rng.Intn(100))
		}
		v.SetInt(n)
	case reflect.Uint, reflect.Uint8, reflect.Uint16, reflect.Uint32, reflect.Uint64:
		n := uint64(gocvInts[rng.Intn(len(gocvInts))])
		if rng.Intn(2) == 0 {
			n = uint64(rng.Intn(256))
		}
		if v.OverflowUint(n) {
			n = uint64(rng.Intn(100))
		}
		v.SetUint(n)
	case reflect.Float32, reflect.Float64:
		v.SetFloat(float64(rng.Intn(100)) / 4)
	case reflect.String:
		s := gocvStrings[rng.Intn(len(gocvStrings))]
		switch rng.Intn(4) {
		case 0:
			s += gocvStrings[rng.Intn(len(gocvStrings))]
		case 1:
			// short words over a tiny alphabet: overlaps, repeated separators, boundary lengths
			const alpha = "ab*-/. :"
			b := make([]byte, rng.Intn(5))
			for i := range b {
				b[i] = alpha[rng.Intn(3+rng.Intn(len(alpha)-2))]
			}
			s = string(b)
		}
		v.SetString(s)
	case reflect.Ptr:
		if depth < 4 && rng.Intn(4) != 0 {
			p := reflect.New(t.Elem())
			p.Elem().Set(gocvGen(rng, t.Elem(), depth+1))
			v.Set(p)
		}
	case reflect.Slice:
		if rng.Intn(6) != 0 && depth < 4 {
			n := rng.Intn(4)
			s := reflect.MakeSlice(t, n, n)
			for i := 0; i < n; i++ {
				s.Index(i).Set(gocvGen(rng, t.Elem(), depth+1))
			}
			v.Set(s)
		}
	case reflect.Array:
		for i := 0; i < t.Len(); i++ {
			v.Index(i).Set(gocvGen(rng, t.Elem(), depth+1))
		}
	case reflect.Struct:
		if t == reflect.TypeOf(time.Time{}) {
			// instants around day boundaries, in UTC or in a fixed-offset zone up to +-14 h
			tm := time.Unix(int64(rng.Intn(6))*43200+int64(rng.Intn(5))-2+int64(rng.Intn(2))*1700000000, int64(rng.Intn(2))*999999999).UTC()
			if rng.Intn(2) == 0 {
				tm = tm.In(time.FixedZone("gocv", (rng.Intn(29)-14)*3600))
			}
			v.Set(reflect.ValueOf(tm))
			break
		}
		for i := 0; i < t.NumField(); i++ {
			f := v.Field(i)
			fv := gocvGen(rng, f.Type(), depth+1)
			reflect.NewAt(f.Type(), unsafe.Pointer(f.UnsafeAddr())).Elem().Set(fv)
		}
	case reflect.Map:
		if rng.Intn(3) != 0 && depth < 4 {
			m := reflect.MakeMap(t)
			for i := rng.Intn(3); i > 0; i-- {
				m.SetMapIndex(gocvGen(rng, t.Key(), depth+1), gocvGen(rng, t.Elem(), depth+1))
			}
			v.Set(m)
		}
	}
	return v
}

// gocvKey writes a canonical deep rendering of a generated value (pointers followed, never printed as addresses), so
// that two generated inputs can be compared for equality: the search counts DISTINCT inputs by a hash of it.
func gocvKey(b *strings.Builder, v reflect.Value, depth int) {
	if depth > 10 {
		b.WriteString("~")
		return
	}
	switch v.Kind() {
	case reflect.Bool:
		fmt.Fprintf(b, "%t", v.Bool())
	case reflect.Int, reflect.Int8, reflect.Int16, reflect.Int32, reflect.Int64:
		fmt.Fprintf(b, "%d", v.Int())
	case reflect.Uint, reflect.Uint8, reflect.Uint16, reflect.Uint32, reflect.Uint64, reflect.Uintptr:
		fmt.Fprintf(b, "%d", v.Uint())
	case reflect.Float32, reflect.Float64:
		fmt.Fprintf(b, "%g", v.Float())
	case reflect.String:
		fmt.Fprintf(b, "%q", v.String())
	case reflect.Ptr, reflect.Interface:
		if v.IsNil() {
			b.WriteString("nil")
			return
		}
		b.WriteString("&")
		gocvKey(b, v.Elem(), depth+1)
	case reflect.Slice, reflect.Array:
		if v.Kind() == reflect.Slice && v.IsNil() {
			b.WriteString("nil")
			return
		}
		b.WriteString("[")
		for i := 0; i < v.Len(); i++ {
			gocvKey(b, v.Index(i), depth+1)
			b.WriteString(",")
		}
		b.WriteString("]")
	case reflect.Struct:
		if v.Type() == reflect.TypeOf(time.Time{}) && v.CanInterface() {
			tm := v.Interface().(time.Time)
			_, off := tm.Zone()
			fmt.Fprintf(b, "T%d+%d", tm.UnixNano(), off)
			return
		}
		b.WriteString("{")
		for i := 0; i < v.NumField(); i++ {
			gocvKey(b, v.Field(i), depth+1)
			b.WriteString(";")
		}
		b.WriteString("}")
	case reflect.Map:
		if v.IsNil() {
			b.WriteString("nil")
			return
		}
		var es []string
		it := v.MapRange()
		for it.Next() {
			var eb strings.Builder
			gocvKey(&eb, it.Key(), depth+1)
			eb.WriteString(":")
			gocvKey(&eb, it.Value(), depth+1)
			es = append(es, eb.String())
		}
		sort.Strings(es)
		b.WriteString("map[" + strings.Join(es, ",") + "]")
	default:
		b.WriteString("?")
	}
}

func gocvHash(vs ...any) uint64 {
	var b strings.Builder
	for _, x := range vs {
		gocvKey(&b, reflect.ValueOf(x), 0)
		b.WriteString("|")
	}
	h := fnv.New64a()
	h.Write([]byte(b.String()))
	return h.Sum64()
}

func gocvMake[T any](seed int64) T {
	var zero T
	return gocvGen(rand.New(rand.NewSource(seed)), reflect.TypeOf(&zero).Elem(), 0).Interface().(T)
}
`

// searchable reports whether every parameter type can be generated.
func searchable(t types.Type, depth int) bool {
	if depth > 6 {
		return false
	}
	switch u := t.Underlying().(type) {
	case *types.Basic:
		return u.Info()&(types.IsBoolean|types.IsInteger|types.IsFloat|types.IsString) != 0
	case *types.Pointer:
		return searchable(u.Elem(), depth+1)
	case *types.Slice:
		return searchable(u.Elem(), depth+1)
	case *types.Array:
		return searchable(u.Elem(), depth+1)
	case *types.Map:
		return searchable(u.Key(), depth+1) && searchable(u.Elem(), depth+1)
	case *types.Struct:
		if isTime(t) {
			return true
		}
		for i := 0; i < u.NumFields(); i++ {
			ft := u.Field(i).Type()
			if _, isIface := ft.Underlying().(*types.Interface); isIface {
				continue // left nil
			}
			if _, isFn := ft.Underlying().(*types.Signature); isFn {
				continue
			}
			if _, isCh := ft.Underlying().(*types.Chan); isCh {
				continue
			}
			if !searchable(ft, depth+1) {
				return false
			}
		}
		return true
	}
	return false
}

// searchFunction runs the bounded concrete search for every `ensures` clause of a function under contract.
func searchFunction(ctx *Context, fr *FuncResult, prop string, outDir string, iterations int, testTimeout time.Duration) (confirmed bool, log string) {
	fn := fr.fn
	if fn == nil || fn.Parent() != nil || fn.Pkg == nil || len(fr.fc.posts) == 0 {
		return false, "no bounded search for this function (closure, or no ensures clause)"
	}
	sig := fn.Signature
	ptypes := paramTypes(sig)
	for _, t := range ptypes {
		if !searchable(t, 0) {
			return false, "no bounded search: parameter type " + t.String() + " cannot be generated"
		}
	}
	sp := ctx.pkgs[fr.fc.PkgPath]
	imps := map[string]string{"testing": "testing", "math/rand": "rand", "reflect": "reflect", "unsafe": "unsafe", "time": "time", "fmt": "fmt", "strings": "strings", "sort": "sort", "hash/fnv": "fnv"}
	qual := func(p *types.Package) string {
		if p == fn.Pkg.Pkg {
			return ""
		}
		imps[p.Path()] = p.Name()
		return p.Name()
	}
	var decls strings.Builder
	var names []string
	for i, t := range ptypes {
		n := fmt.Sprintf("a%d", i)
		names = append(names, n)
		ts := types.TypeString(t, qual)
		fmt.Fprintf(&decls, "\t\ts%d := rng.Int63()\n\t\t%s := gocvMake[%s](s%d)\n\t\told_%s := gocvMake[%s](s%d)\n\t\t_ = old_%s\n", i, n, ts, i, n, ts, i, n)
	}
	var resNames []string
	for i := 0; i < sig.Results().Len(); i++ {
		resNames = append(resNames, fmt.Sprintf("r%d", i))
	}
	call := ""
	if sig.Recv() != nil {
		if _, isPtr := ptypes[0].(*types.Pointer); isPtr {
			fmt.Fprintf(&decls, "\t\tif a0 == nil {\n\t\t\tcontinue\n\t\t}\n")
		}
		call = fmt.Sprintf("a0.%s(%s)", fn.Name(), strings.Join(names[1:], ", "))
	} else {
		call = fmt.Sprintf("%s(%s)", fn.Name(), strings.Join(names, ", "))
	}
	assign := ""
	if len(resNames) > 0 {
		assign = strings.Join(resNames, ", ") + " := "
	}
	bindArgs := func(lowName string, useOld bool) ([]string, bool) {
		lf := sp.Func(lowName)
		if lf == nil {
			return nil, false
		}
		rn := resultNames(sig)
		var out []string
		for _, p := range lf.Params {
			bound := false
			for i, fp := range fn.Params {
				if fp.Name() == p.Name() {
					if useOld {
						out = append(out, "old_"+names[i])
					} else {
						out = append(out, names[i])
					}
					bound = true
				}
			}
			for i, n := range rn {
				if !bound && n == p.Name() && !useOld {
					out = append(out, resNames[i])
					bound = true
				}
			}
			if !bound && strings.HasPrefix(p.Name(), "gocvold_") {
				out = append(out, p.Name())
				bound = true
			}
			if !bound {
				return nil, false
			}
		}
		return out, true
	}
	pre := ""
	if fr.fc.hasPre {
		if as, ok := bindArgs(fr.fc.preFunc(), true); ok {
			pre = fmt.Sprintf("\t\tif !%s(%s) {\n\t\t\tcontinue\n\t\t}\n", fr.fc.preFunc(), strings.Join(as, ", "))
		} else {
			return false, "no bounded search: precondition cannot be bound"
		}
	}
	var checks strings.Builder
	nchecks := 0
	for _, pf := range fr.fc.posts {
		if !fr.fc.counts(pf.label, prop) {
			continue
		}
		if len(pf.calls) > 0 {
			continue // speaks about calls made inside: not observable from outside
		}
		ok := true
		var oldDecl strings.Builder
		for k, on := range pf.olds {
			as, okb := bindArgs(on, true)
			if !okb {
				ok = false
				break
			}
			fmt.Fprintf(&oldDecl, "\t\t\tgocvold_%d := %s(%s)\n\t\t\t_ = gocvold_%d\n", k, on, strings.Join(as, ", "), k)
		}
		as, okb := bindArgs(pf.name, false)
		if !ok || !okb {
			continue
		}
		nchecks++
		fmt.Fprintf(&checks, "\t\t{\n%s\t\t\tif !%s(%s) {\n\t\t\t\tt.Fatalf(\"REPLAY-CONFIRMED: contract clause %s violated by the real code on generated input #%%d: args %%s results %%s\", i, fmt.Sprintf(\"%%+v\", []any{%s}), fmt.Sprintf(\"%%+v\", []any{%s}))\n\t\t\t}\n\t\t}\n",
			oldDecl.String(), pf.name, strings.Join(as, ", "), pf.label, strings.Join(prefixAll("old_", names), ", "), strings.Join(resNames, ", "))
	}
	if nchecks == 0 {
		return false, "no bounded search: no clause that can be evaluated from outside"
	}
	// old() functions must see entry values: they are evaluated on the old_ copies before the call
	var preOld strings.Builder
	_ = preOld
	var imp strings.Builder
	for p, n := range imps {
		fmt.Fprintf(&imp, "\t%s %q\n", n, p)
	}
	under := ""
	for _, rn := range resNames {
		under += "\t\t_ = " + rn + "\n"
	}
	src := fmt.Sprintf(`//go:build verif

package %s

import (
%s)
%s
// Bounded concrete search for %s: %d generated inputs, oracle = the lowered contract clauses.
func TestGocvReplay(t *testing.T) {
	rng := rand.New(rand.NewSource(%d))
	tried, generated := 0, 0
	distinct := map[uint64]struct{}{}
	// printed whichever way the search ends (t.Fatalf runs deferred calls): what was actually explored
	defer func() {
		t.Logf("GOCV-SEARCH-STATS generated=%%d satisfied=%%d distinct=%%d", generated, tried, len(distinct))
	}()
	for i := 0; i < %d; i++ {
		generated++
%s%s		distinct[gocvHash(%s)] = struct{}{}
		func() {
			defer func() {
				if x := recover(); x != nil {
					_ = x // a panic of the real code on an input the precondition allows is not judged here
				}
			}()
			tried++
			%s%s
%s%s		}()
	}
	t.Logf("REPLAY-NOT-CONFIRMED (bounded search: %%d inputs satisfied the precondition, no clause violated)", tried)
}
`, fn.Pkg.Pkg.Name(), imp.String(), searchGenSrc, fnDisplayName(fn), iterations, 20260921, iterations, decls.String(), pre, strings.Join(prefixAll("old_", names), ", "), assign, call, under, checks.String())
	return runReplayTestTimeout(ctx, fr.fc.PkgPath, src, outDir, testTimeout)
}

func prefixAll(p string, xs []string) []string {
	var out []string
	for _, x := range xs {
		out = append(out, p+x)
	}
	return out
}
