package main

import (
	"bytes"
	"context"
	"fmt"
	"os"
	"os/exec"
	"strings"
	"sync"
	"time"
)

const prelude = "(set-option :produce-models true)\n(set-logic ALL)\n(declare-sort U 0)\n(declare-const nilU U)\n(define-fun zeroTime () Int (- 62135596800000000000))\n"

type solveResult struct {
	status string // unsat | sat | unknown
	solver string
	out    string
	dur    time.Duration
}

func buildQuery(decls, facts []string, extra []string, tail string) string {
	var sb strings.Builder
	sb.WriteString(prelude)
	for _, d := range decls {
		sb.WriteString(d + "\n")
	}
	for _, p := range facts {
		sb.WriteString("(assert " + p + ")\n")
	}
	for _, p := range extra {
		sb.WriteString("(assert " + p + ")\n")
	}
	sb.WriteString("(check-sat)\n")
	sb.WriteString(tail)
	return sb.String()
}

var solverSem = make(chan struct{}, 14)

// race runs the three solvers on one query; the first definite answer wins.
func race(query string, timeout time.Duration, keepAs string) solveResult {
	f, err := os.CreateTemp(tmpDir(), "ob-*.smt2")
	if err != nil {
		return solveResult{status: "unknown", out: err.Error()}
	}
	f.WriteString(query)
	f.Close()
	defer os.Remove(f.Name())
	if keepAs != "" {
		os.WriteFile(keepAs, []byte(query), 0o644)
	}
	type res struct{ solver, out string }
	ch := make(chan res, 3)
	ctx, cancel := context.WithTimeout(context.Background(), timeout)
	defer cancel()
	t0 := time.Now()
	secs := fmt.Sprint(int(timeout.Seconds()) + 1)
	cmds := [][]string{{"z3-new", "-T:" + secs, f.Name()}, {"z3", "-T:" + secs, f.Name()}, {"cvc5", "--produce-models", "--strings-exp", "--tlimit=" + fmt.Sprint(int(timeout.Milliseconds())), f.Name()}}
	for _, c := range cmds {
		go func(c []string) {
			solverSem <- struct{}{}
			defer func() { <-solverSem }()
			var out bytes.Buffer
			if ctx.Err() != nil {
				ch <- res{c[0], "cancelled"}
				return
			}
			cmd := exec.CommandContext(ctx, c[0], c[1:]...)
			cmd.Stdout = &out
			cmd.Run()
			ch <- res{c[0], out.String()}
		}(c)
	}
	firstErr := ""
	for i := 0; i < len(cmds); i++ {
		r := <-ch
		first := strings.SplitN(strings.TrimSpace(r.out), "\n", 2)[0]
		if first == "unsat" || first == "sat" {
			return solveResult{status: first, solver: r.solver, out: r.out, dur: time.Since(t0)}
		}
		if firstErr == "" || strings.Contains(first, "error") {
			firstErr = r.solver + ": " + first
		}
	}
	return solveResult{status: "unknown", out: firstErr, dur: time.Since(t0)}
}

var tmpDirOnce sync.Once
var tmpDirPath string

func tmpDir() string {
	tmpDirOnce.Do(func() {
		tmpDirPath, _ = os.MkdirTemp("", "gocv-*")
	})
	return tmpDirPath
}

func cleanupTmp() {
	if tmpDirPath != "" {
		os.RemoveAll(tmpDirPath)
	}
}

// ---- tiny s-expression reader for (get-value ...) answers ----

type sx struct {
	atom string
	list []*sx
}

func parseSx(s string) *sx {
	pos := 0
	var rd func() *sx
	skip := func() {
		for pos < len(s) && (s[pos] == ' ' || s[pos] == '\n' || s[pos] == '\t' || s[pos] == '\r') {
			pos++
		}
	}
	rd = func() *sx {
		skip()
		if pos >= len(s) {
			return nil
		}
		if s[pos] == '(' {
			pos++
			n := &sx{list: []*sx{}}
			for {
				skip()
				if pos >= len(s) {
					return n
				}
				if s[pos] == ')' {
					pos++
					return n
				}
				n.list = append(n.list, rd())
			}
		}
		start := pos
		if s[pos] == '"' {
			pos++
			for pos < len(s) {
				if s[pos] == '"' {
					if pos+1 < len(s) && s[pos+1] == '"' {
						pos += 2
						continue
					}
					pos++
					break
				}
				pos++
			}
			return &sx{atom: s[start:pos]}
		}
		for pos < len(s) && !strings.ContainsRune(" \n\t\r()", rune(s[pos])) {
			pos++
		}
		return &sx{atom: s[start:pos]}
	}
	return rd()
}

func (x *sx) String() string {
	if x == nil {
		return ""
	}
	if x.list == nil {
		return x.atom
	}
	var parts []string
	for _, c := range x.list {
		parts = append(parts, c.String())
	}
	return "(" + strings.Join(parts, " ") + ")"
}

// getValues asks a solver for the values of terms in a model of the query.
func getValues(decls, facts, extra, terms []string, timeout time.Duration) (map[string]string, bool) {
	tail := ""
	if len(terms) > 0 {
		tail = "(get-value (" + strings.Join(terms, " ") + "))\n"
	}
	q := buildQuery(decls, facts, extra, tail)
	f, _ := os.CreateTemp(tmpDir(), "rv-*.smt2")
	f.WriteString(q)
	f.Close()
	defer os.Remove(f.Name())
	for _, solver := range []string{"z3-new", "z3"} {
		ctx, cancel := context.WithTimeout(context.Background(), timeout)
		out, _ := exec.CommandContext(ctx, solver, "-T:"+fmt.Sprint(int(timeout.Seconds())+1), f.Name()).Output()
		cancel()
		text := strings.TrimSpace(string(out))
		if !strings.HasPrefix(text, "sat") {
			continue
		}
		vals := map[string]string{}
		if len(terms) > 0 {
			tree := parseSx(strings.TrimSpace(strings.TrimPrefix(text, "sat")))
			if tree != nil {
				for i, pair := range tree.list {
					if len(pair.list) == 2 && i < len(terms) {
						vals[terms[i]] = pair.list[1].String()
					}
				}
			}
		}
		return vals, true
	}
	return nil, false
}

// noExt asks z3 with array extensionality switched off. Without that axiom fewer formulas are unsatisfiable, so an
// `unsat` answer stands as it is; a `sat` answer may be spurious and is only used by the caller as a last resort, after
// the ordinary solvers have run out of time twice (see solveAll).
func noExt(query string, timeout time.Duration) solveResult {
	f, err := os.CreateTemp(tmpDir(), "ob-*.smt2")
	if err != nil {
		return solveResult{status: "unknown", out: err.Error()}
	}
	f.WriteString(query)
	f.Close()
	defer os.Remove(f.Name())
	ctx, cancel := context.WithTimeout(context.Background(), timeout+time.Second)
	defer cancel()
	t0 := time.Now()
	solverSem <- struct{}{}
	defer func() { <-solverSem }()
	var out bytes.Buffer
	cmd := exec.CommandContext(ctx, "z3-new", "-T:"+fmt.Sprint(int(timeout.Seconds())+1), "smt.array.extensional=false", f.Name())
	cmd.Stdout = &out
	cmd.Run()
	first := strings.SplitN(strings.TrimSpace(out.String()), "\n", 2)[0]
	if first == "sat" || first == "unsat" {
		return solveResult{status: first, solver: "z3-new(array.extensional=false)", out: out.String(), dur: time.Since(t0)}
	}
	return solveResult{status: "unknown", out: first, dur: time.Since(t0)}
}
