package main

import (
	"strings"
	"fmt"
	"go/types"
)

// State maps identities (cells, arrays) to their current symbolic contents.
// States are treated as immutable once a block has finished; blocks clone on entry.
type State struct {
	cells map[*Cell]Val
	arrs  map[*Arr]map[string]string
}

func newState() *State { return &State{cells: map[*Cell]Val{}, arrs: map[*Arr]map[string]string{}} }

func (s *State) clone() *State {
	n := newState()
	for k, v := range s.cells {
		n.cells[k] = v
	}
	for k, m := range s.arrs {
		c := make(map[string]string, len(m))
		for a, b := range m {
			c[a] = b
		}
		n.arrs[k] = c
	}
	return n
}

type mergeFail struct {
	why   string
	split interface{} // *ssa.If that governs the join, when known
}

type guarded struct {
	g    string
	s    *State
	from interface{} // *ssa.BasicBlock of the predecessor (nil for the entry edge)
}

// mergeStates builds ite(g1, s1, ite(g2, s2, ... sn)).
func (e *Engine) mergeStates(in []guarded) *State {
	if len(in) == 1 {
		return in[0].s.clone()
	}
	acc := in[len(in)-1].s.clone()
	for i := len(in) - 2; i >= 0; i-- {
		acc = e.merge2(in[i].g, in[i].s, acc)
	}
	return acc
}

func (e *Engine) merge2(g string, a, b *State) *State {
	out := newState()
	e.mergeOut = out
	for c, va := range a.cells {
		if vb, ok := b.cells[c]; ok {
			out.cells[c] = e.mergeVal(g, va, vb, a, b, c.Name)
		} else if init, ok := e.inputCells[c]; ok {
			out.cells[c] = e.mergeVal(g, va, init, a, b, c.Name)
		} else {
			out.cells[c] = va
		}
	}
	for c, vb := range b.cells {
		if _, ok := a.cells[c]; !ok {
			if init, ok := e.inputCells[c]; ok {
				out.cells[c] = e.mergeVal(g, init, vb, a, b, c.Name)
			} else {
				out.cells[c] = vb
			}
		}
	}
	for r, ma := range a.arrs {
		mb, ok := b.arrs[r]
		if !ok {
			mb, ok = e.inputArrs[r]
		}
		m := map[string]string{}
		for k, ta := range ma {
			if ok {
				m[k] = e.share(ite(g, ta, mb[k]), e.arrSort(leafSort(r, k)))
			} else {
				m[k] = ta
			}
		}
		out.arrs[r] = m
	}
	for r, mb := range b.arrs {
		if _, ok := a.arrs[r]; !ok {
			m := map[string]string{}
			init, isInput := e.inputArrs[r]
			for k, t := range mb {
				if isInput {
					m[k] = e.share(ite(g, init[k], t), e.arrSort(leafSort(r, k)))
				} else {
					m[k] = t
				}
			}
			out.arrs[r] = m
		}
	}
	return out
}

func leafSort(a *Arr, key string) string {
	for _, l := range a.Leaves {
		if l.key == key {
			return l.sort
		}
	}
	return "Int"
}

func (e *Engine) optSnapshot(o OptV, s *State) Val {
	if o.Cell != nil {
		if v, ok := s.cells[o.Cell]; ok {
			return v
		}
		if v, ok := e.inputCells[o.Cell]; ok {
			return v
		}
	}
	return o.V
}

func (e *Engine) mergeVal(g string, a, b Val, sa, sb *State, what string) Val {
	if a == nil && b == nil {
		return nil
	}
	switch x := a.(type) {
	case IntV:
		if y, ok := b.(IntV); ok {
			return IntV{e.share(ite(g, x.T, y.T), "")}
		}
	case BoolV:
		if y, ok := b.(BoolV); ok {
			return BoolV{e.share(ite(g, x.T, y.T), "Bool")}
		}
	case StrV:
		if y, ok := b.(StrV); ok {
			return StrV{e.share(ite(g, x.T, y.T), "String")}
		}
	case RealV:
		if y, ok := b.(RealV); ok {
			return RealV{e.share(ite(g, x.T, y.T), "Real")}
		}
	case TimeV:
		if y, ok := b.(TimeV); ok {
			return TimeV{e.share(ite(g, x.T, y.T), "Int")}
		}
	case ErrV:
		if y, ok := b.(ErrV); ok {
			return ErrV{e.share(ite(g, x.T, y.T), "Int")}
		}
	case OptV:
		if y, ok := b.(OptV); ok {
			nilT := ite(g, x.Nil, y.Nil)
			switch {
			case x.Cell == y.Cell:
				if x.Cell != nil {
					return OptV{Nil: nilT, Cell: x.Cell, Elem: x.Elem}
				}
				return OptV{Nil: nilT, V: e.mergeVal(g, x.V, y.V, sa, sb, what), Elem: x.Elem}
			case x.Nil == "true":
				return OptV{Nil: nilT, V: y.V, Cell: y.Cell, Elem: y.Elem}
			case y.Nil == "true":
				return OptV{Nil: nilT, V: x.V, Cell: x.Cell, Elem: x.Elem}
			default: // different pointees: fall back to value semantics
				return OptV{Nil: nilT, V: e.mergeVal(g, e.optSnapshot(x, sa), e.optSnapshot(y, sb), sa, sb, what), Elem: x.Elem}
			}
		}
	case StructV:
		if y, ok := b.(StructV); ok && types.Identical(x.Typ, y.Typ) {
			out := StructV{Typ: x.Typ, F: make([]Val, len(x.F))}
			if x.Sym == y.Sym {
				out.Sym = x.Sym
			}
			for i := range x.F {
				fa, fb := x.F[i], y.F[i]
				if fa == nil && fb == nil && out.Sym != "" {
					continue
				}
				if fa == nil {
					fa = e.field(x, i)
				}
				if fb == nil {
					fb = e.field(y, i)
				}
				out.F[i] = e.mergeVal(g, fa, fb, sa, sb, what)
			}
			return out
		}
	case SliceV:
		if y, ok := b.(SliceV); ok {
			if x.Arr == y.Arr {
				return SliceV{Arr: x.Arr, Off: e.share(ite(g, x.Off, y.Off), ""), Len: e.share(ite(g, x.Len, y.Len), ""), Nil: ite(g, x.Nil, y.Nil)}
			}
			if x.Nil == "true" && x.Len == e.lit(0) {
				return SliceV{Arr: y.Arr, Off: y.Off, Len: e.share(ite(g, e.lit(0), y.Len), ""), Nil: ite(g, "true", y.Nil)}
			}
			if y.Nil == "true" && y.Len == e.lit(0) {
				return SliceV{Arr: x.Arr, Off: x.Off, Len: e.share(ite(g, x.Len, e.lit(0)), ""), Nil: ite(g, x.Nil, "true")}
			}
			if e.mergeOut != nil && x.Arr != nil && y.Arr != nil && types.Identical(x.Arr.Elem, y.Arr.Elem) && x.Off == y.Off {
				ma, mb := e.arr(sa, x.Arr), e.arr(sb, y.Arr)
				e.freshMerges++
				e.ncell++
				na := &Arr{Elem: x.Arr.Elem, Leaves: x.Arr.Leaves, id: e.ncell, Name: x.Arr.Name + "|" + y.Arr.Name}
				m := map[string]string{}
				for k := range ma {
					m[k] = e.share(ite(g, ma[k], mb[k]), e.arrSort(leafSort(na, k)))
				}
				e.mergeOut.arrs[na] = m
				if e.arrCap == nil {
					e.arrCap = map[*Arr]string{}
				}
				ca, oka := e.arrCap[x.Arr]
				cb, okb := e.arrCap[y.Arr]
				if oka || okb {
					// the merged backing array is as large as the one it stands for
					if !oka {
						ca = e.capTerm(SliceV{Arr: x.Arr, Off: x.Off, Len: x.Len})
						ca = e.arrCap[x.Arr]
					}
					if !okb {
						cb = e.capTerm(SliceV{Arr: y.Arr, Off: y.Off, Len: y.Len})
						cb = e.arrCap[y.Arr]
					}
					e.arrCap[na] = ite(g, ca, cb)
				}
				return SliceV{Arr: na, Off: x.Off, Len: e.share(ite(g, x.Len, y.Len), ""), Nil: ite(g, x.Nil, y.Nil)}
			}
		}
	case AddrV:
		if y, ok := b.(AddrV); ok && x.Cell == y.Cell && pathKey(x.Path) == pathKey(y.Path) {
			if x.Nil == "" && y.Nil == "" {
				return x
			}
			nx, ny := x.Nil, y.Nil
			if nx == "" {
				nx = "false"
			}
			if ny == "" {
				ny = "false"
			}
			return AddrV{Cell: x.Cell, Path: x.Path, Nil: ite(g, nx, ny)}
		}
		// the addresses of two different local variables of one type (`p = &a` in one branch, `p = &b` in the other,
		// both locals referenced from nowhere else): one new variable holding the conditional of their contents
		if y, ok := b.(AddrV); ok && x.Cell != y.Cell && len(x.Path) == 0 && len(y.Path) == 0 && e.cfg.Effects && e.mergeOut != nil && x.Cell.Typ != nil && y.Cell.Typ != nil && types.Identical(x.Cell.Typ, y.Cell.Typ) {
			ca, oka := sa.cells[x.Cell]
			cb, okb := sb.cells[y.Cell]
			if !oka {
				ca, oka = e.inputCells[x.Cell]
			}
			if !okb {
				cb, okb = e.inputCells[y.Cell]
			}
			if oka && okb {
				e.freshMerges++
				c := e.newCell(x.Cell.Typ, x.Cell.Name+"|"+y.Cell.Name)
				e.mergeOut.cells[c] = e.mergeVal(g, ca, cb, sa, sb, what)
				nx, ny := x.Nil, y.Nil
				out := AddrV{Cell: c}
				if nx != "" || ny != "" {
					if nx == "" {
						nx = "false"
					}
					if ny == "" {
						ny = "false"
					}
					out.Nil = ite(g, nx, ny)
				}
				return out
			}
		}
		// the address of a variable or field merged with a nil pointer (`return &x.f, nil` / `return nil, err`)
		if isNilPtrVal(b) {
			nx := x.Nil
			if nx == "" {
				nx = "false"
			}
			return AddrV{Cell: x.Cell, Path: x.Path, Nil: ite(g, nx, "true")}
		}
	case ElemAddrV:
		if y, ok := b.(ElemAddrV); ok && x.Arr == y.Arr && pathKey(x.Path) == pathKey(y.Path) {
			nx, ny := x.Nil, y.Nil
			if nx == "" {
				nx = "false"
			}
			if ny == "" {
				ny = "false"
			}
			out := ElemAddrV{Arr: x.Arr, Idx: e.share(ite(g, x.Idx, y.Idx), ""), Path: x.Path, Nil: ite(g, nx, ny)}
			if out.Nil == "false" {
				out.Nil = ""
			}
			return out
		}
		// a pointer to a slice element merged with a nil pointer (`return &rules[i], true` / `return nil, false`)
		if y, ok := b.(PtrV); ok && y.Nil == "true" {
			nx := x.Nil
			if nx == "" {
				nx = "false"
			}
			return ElemAddrV{Arr: x.Arr, Idx: x.Idx, Path: x.Path, Nil: ite(g, nx, "true")}
		}
	case PtrV:
		if y, ok := b.(AddrV); ok && x.Nil == "true" {
			ny := y.Nil
			if ny == "" {
				ny = "false"
			}
			return AddrV{Cell: y.Cell, Path: y.Path, Nil: ite(g, "true", ny)}
		}
		if y, ok := b.(ElemAddrV); ok && x.Nil == "true" {
			ny := y.Nil
			if ny == "" {
				ny = "false"
			}
			return ElemAddrV{Arr: y.Arr, Idx: y.Idx, Path: y.Path, Nil: ite(g, "true", ny)}
		}
		if y, ok := b.(PtrV); ok {
			nilT := ite(g, x.Nil, y.Nil)
			switch {
			case x.Cell == y.Cell && x.Name == y.Name:
				return PtrV{Nil: nilT, Cell: x.Cell, Elem: x.Elem, Name: x.Name, Cands: x.Cands}
			case x.Nil == "true":
				return PtrV{Nil: nilT, Cell: y.Cell, Elem: y.Elem, Name: y.Name, Cands: y.Cands}
			case y.Nil == "true":
				return PtrV{Nil: nilT, Cell: x.Cell, Elem: x.Elem, Name: x.Name, Cands: x.Cands}
			case e.cfg.Effects && e.mergeOut != nil && e.freshMergeDepth == 0 && types.Identical(x.Elem, y.Elem) && isStructType(x.Elem) && e.objectContent(x, sa) != nil && e.objectContent(y, sb) != nil:
				// two symbolic objects (results of two calls in two branches, looked into or not): one new object whose
				// fields are the conditional of theirs (captures of the results keep the objects as returned)
				e.freshMerges++
				c := e.newCell(x.Elem, x.Name+"|"+y.Name)
				ca, cb := e.objectContent(x, sa), e.objectContent(y, sb)
				e.freshMergeDepth++ // pointers inside the two objects are not merged this way (lazily symbolic objects are infinite trees)
				e.mergeOut.cells[c] = e.mergeVal(g, ca, cb, sa, sb, what)
				e.freshMergeDepth--
				return PtrV{Nil: nilT, Cell: c, Elem: x.Elem, Name: c.Name}
			case x.Cell != nil && y.Cell != nil && e.mergeOut != nil && types.Identical(x.Elem, y.Elem):
				// two different objects: merge them into one object (sound when neither is referenced elsewhere,
				// which holds for the `opts = &T{...}` idiom; counted as an assumption)
				ca, oka := sa.cells[x.Cell]
				cb, okb := sb.cells[y.Cell]
				if oka && okb {
					e.freshMerges++
					c := e.newCell(x.Elem, x.Name+"|"+y.Name)
					e.mergeOut.cells[c] = e.mergeVal(g, ca, cb, sa, sb, what)
					return PtrV{Nil: nilT, Cell: c, Elem: x.Elem, Name: c.Name}
				}
				fallthrough
			default:
				// pointers to two different objects whose contents cannot be merged: keep only the nil-ness;
				// a later dereference makes the function undecided (see materialise)
				e.nfresh++
				return PtrV{Nil: nilT, Elem: x.Elem, Name: fmt.Sprintf("mergedptr!%d", e.nfresh), Cands: append(e.candCells(x), e.candCells(y)...)}
			}
		}
	case FuncV:
		if y, ok := b.(FuncV); ok && x.Fn == y.Fn {
			nx, ny := x.Nil, y.Nil
			if nx == "" && ny == "" {
				return x
			}
			if nx == "" {
				nx = "false"
			}
			if ny == "" {
				ny = "false"
			}
			return FuncV{Fn: x.Fn, Bind: x.Bind, Nil: ite(g, nx, ny)}
		}
		if y, ok := b.(OpaqueV); ok && y.T == "nilU" {
			nx := x.Nil
			if nx == "" {
				nx = "false"
			}
			return FuncV{Fn: x.Fn, Bind: x.Bind, Nil: ite(g, nx, "true")}
		}
		if y, ok := b.(OpaqueV); ok {
			return OpaqueV{ite(g, e.fresh("fn", "U"), y.T)}
		}
	case OpaqueV:
		if y, ok := b.(AddrV); ok && x.T == "nilU" {
			ny := y.Nil
			if ny == "" {
				ny = "false"
			}
			return AddrV{Cell: y.Cell, Path: y.Path, Nil: ite(g, "true", ny)}
		}
		if y, ok := b.(FuncV); ok && x.T == "nilU" {
			ny := y.Nil
			if ny == "" {
				ny = "false"
			}
			return FuncV{Fn: y.Fn, Bind: y.Bind, Nil: ite(g, "true", ny)}
		}
		if y, ok := b.(OpaqueV); ok {
			return OpaqueV{ite(g, x.T, y.T)}
		}
		if _, ok := b.(FuncV); ok {
			// an unknown function value or a closure: the closure's identity is given up (calls become abstract)
			return OpaqueV{ite(g, x.T, e.fresh("fn", "U"))}
		}
	case MapV:
		if y, ok := b.(MapV); ok && x.Cell == y.Cell {
			return MapV{Nil: ite(g, x.Nil, y.Nil), Cell: x.Cell, Typ: x.Typ, KS: x.KS, VS: x.VS, Has: ite(g, x.Has, y.Has), Val: ite(g, x.Val, y.Val)}
		}
	case TupleV:
		if y, ok := b.(TupleV); ok && len(x) == len(y) {
			out := make(TupleV, len(x))
			for i := range x {
				out[i] = e.mergeVal(g, x[i], y[i], sa, sb, what)
			}
			return out
		}
	}
	if x, ok := a.(ArrPtrV); ok {
		if y, ok := b.(ArrPtrV); ok && x.N == y.N {
			if x.Arr == y.Arr {
				return x
			}
			// pointers to two different fixed-size arrays (argument lists and composite literals built on two paths):
			// the merged pointer denotes an array whose contents are those of the one or the other
			if e.mergeOut != nil && x.Arr != nil && y.Arr != nil && types.Identical(x.Arr.Elem, y.Arr.Elem) {
				ma, mb := e.arr(sa, x.Arr), e.arr(sb, y.Arr)
				e.freshMerges++
				e.ncell++
				na := &Arr{Elem: x.Arr.Elem, Leaves: x.Arr.Leaves, id: e.ncell, Name: x.Arr.Name + "|" + y.Arr.Name}
				m := map[string]string{}
				for k := range ma {
					m[k] = e.share(ite(g, ma[k], mb[k]), e.arrSort(leafSort(na, k)))
				}
				e.mergeOut.arrs[na] = m
				return ArrPtrV{Arr: na, N: x.N}
			}
		}
	}
	panic(mergeFail{why: fmt.Sprintf("cannot merge %T with %T (%s)", a, b, what)})
}

// candCells lists the objects a pointer may point to (for pointers merged from several objects).
func (e *Engine) candCells(p PtrV) []*Cell {
	switch {
	case p.Cell != nil:
		return []*Cell{p.Cell}
	case len(p.Cands) > 0:
		return p.Cands
	case p.Nil == "true":
		return nil
	}
	c := e.ptrCell[p.Name]
	if c == nil {
		c = e.newCell(p.Elem, p.Name)
		e.ptrCell[p.Name] = c
	}
	return []*Cell{c}
}

func isNilPtrVal(v Val) bool {
	switch o := v.(type) {
	case PtrV:
		return o.Nil == "true"
	case OptV:
		return o.Nil == "true" && o.Cell == nil
	case OpaqueV:
		return o.T == "nilU"
	}
	return false
}

func isStructType(t types.Type) bool {
	_, ok := t.Underlying().(*types.Struct)
	return ok
}

// freshResultPtr: a symbolic pointer (result of a havocked or interface call, or an input) whose object has not been
// materialised in the given state: its contents are still exactly the lazily symbolic fields named after it.
func (e *Engine) freshResultPtr(p PtrV, st *State) bool {
	if p.Cell != nil || p.Name == "" || p.Name == "nilptr" || p.Name == "snap" || strings.HasPrefix(p.Name, "mergedptr!") || len(p.Cands) > 0 || p.Nil == "true" {
		return false
	}
	if c := e.ptrCell[p.Name]; c != nil {
		if _, ok := st.cells[c]; ok {
			return false
		}
		if _, ok := e.inputCells[c]; ok {
			return false
		}
	}
	if _, boxed := e.boxedTerm[p.Name]; boxed {
		return false
	}
	return true
}

// objectContent gives the struct a (non-merged) pointer points to in state st: the contents of its cell, the initial
// contents of a materialised input object, or the lazily symbolic fields of a symbolic object nobody looked into yet.
func (e *Engine) objectContent(p PtrV, st *State) Val {
	if p.Nil == "true" || strings.HasPrefix(p.Name, "mergedptr!") || len(p.Cands) > 0 || p.Name == "snap" || p.Name == "nilptr" {
		return nil
	}
	if _, boxed := e.boxedTerm[p.Name]; boxed {
		return nil
	}
	c := p.Cell
	if c == nil && p.Name != "" {
		c = e.ptrCell[p.Name]
	}
	if c != nil {
		if v, ok := st.cells[c]; ok {
			return v
		}
		if v, ok := e.inputCells[c]; ok {
			return v
		}
		return nil
	}
	if p.Name == "" {
		return nil
	}
	if stt, ok := p.Elem.Underlying().(*types.Struct); ok {
		return StructV{Typ: stt, F: make([]Val, stt.NumFields()), Sym: p.Name}
	}
	return nil
}
