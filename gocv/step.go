package main

import (
	"fmt"
	"go/token"
	"go/types"
	"strings"

	"golang.org/x/tools/go/ssa"
)

// ArrPtrV is the address of a local fixed-size array (`var buf [8]byte`, variadic argument arrays).
type ArrPtrV struct {
	Arr *Arr
	N   int64
}

func (e *Engine) overflowCheck(kind string, t types.Type, term string, cur string, pos token.Pos) {
	if e.cfg.Arith != "int" || e.pure > 0 || e.inlineDepth > 0 && !e.cfg.Effects && false {
		return
	}
	if !isInteger(t) || pos == token.NoPos {
		return
	}
	e.oblige("overflow", "", cur, intRange(t, term), pos)
}

// step executes one non-control instruction.
func (e *Engine) step(f *frame, stp **State, b *ssa.BasicBlock, ins []guarded, instr ssa.Instruction, cur string) {
	st := *stp
	switch x := instr.(type) {
	case *ssa.Alloc:
		elem := x.Type().(*types.Pointer).Elem()
		if at, ok := elem.Underlying().(*types.Array); ok && !wholeValueArrayAlloc(x) {
			arr := e.newArr(st, at.Elem(), false, x.Comment+"_arr")
			f.env[x] = ArrPtrV{Arr: arr, N: at.Len()}
			break
		}
		c := e.newCell(elem, x.Comment)
		st.cells[c] = e.zero(st, c.Typ)
		if _, ok := e.scalarSort(c.Typ); ok && x.Heap {
			f.env[x] = OptV{Nil: "false", Cell: c, Elem: c.Typ}
		} else if _, ok := c.Typ.Underlying().(*types.Struct); ok && !isTime(c.Typ) {
			f.env[x] = PtrV{Nil: "false", Cell: c, Elem: c.Typ, Name: fmt.Sprintf("%s#%d", x.Comment, c.id)}
		} else {
			f.env[x] = AddrV{Cell: c}
		}
		f.allocs[c] = x.Block()
		if x.Comment != "" {
			f.namedAll[x.Comment] = append(f.namedAll[x.Comment], c)
			if _, dup := f.named[x.Comment]; !dup || x.Comment == "rangeindex" {
				f.named[x.Comment] = c
			}
		}
	case *ssa.Store:
		if _, toElem := x.Addr.(*ssa.IndexAddr); toElem && e.pure == 0 {
			e.escapeAcrossIterations(f, b, e.get(f, st, x.Val))
		}
		e.store(st, e.get(f, st, x.Addr), e.get(f, st, x.Val), cur, x.Pos())
	case *ssa.UnOp:
		switch x.Op {
		case token.MUL:
			if g, ok := x.X.(*ssa.Global); ok {
				f.env[x] = e.globalVal(st, g, x.Type())
			} else if v := e.load(st, e.get(f, st, x.X), x.Type(), cur, x.Pos()); v != nil {
				f.env[x] = v
			} else {
				f.env[x] = e.symbolic(st, x.Type(), "ld")
			}
		case token.NOT:
			f.env[x] = BoolV{not(termOf(e.get(f, st, x.X)))}
		case token.SUB:
			switch v := e.get(f, st, x.X).(type) {
			case IntV:
				if e.bv() {
					f.env[x] = IntV{"(bvneg " + v.T + ")"}
				} else {
					f.env[x] = IntV{"(- " + v.T + ")"}
					e.overflowCheck("neg", x.Type(), "(- "+v.T+")", cur, x.Pos())
				}
			case RealV:
				f.env[x] = RealV{"(- " + v.T + ")"}
			default:
				f.env[x] = e.symbolic(st, x.Type(), "neg")
			}
		case token.XOR:
			if v, ok := e.get(f, st, x.X).(IntV); ok && e.bv() {
				f.env[x] = IntV{"(bvnot " + v.T + ")"}
			} else {
				f.env[x] = e.symbolic(st, x.Type(), "compl")
			}
		default: // channel receive etc.
			f.env[x] = e.symbolic(st, x.Type(), "unop")
		}
	case *ssa.BinOp:
		v := e.binop(st, x.Op, e.get(f, st, x.X), e.get(f, st, x.Y), x.Type(), x.X.Type(), x.Y.Type())
		if iv, ok := v.(IntV); ok && (x.Op == token.ADD || x.Op == token.SUB || x.Op == token.MUL || x.Op == token.SHL) {
			e.overflowCheck("arith", x.Type(), iv.T, cur, x.Pos())
		}
		if (x.Op == token.QUO || x.Op == token.REM) && isInteger(x.Type()) && e.cfg.NoPanic {
			if d, ok := e.get(f, st, x.Y).(IntV); ok {
				e.oblige("nopanic", "div-by-zero", cur, not(eq(d.T, e.litT(0, x.Y.Type()))), x.Pos())
			}
		}
		f.env[x] = v
	case *ssa.FieldAddr:
		switch base := e.get(f, st, x.X).(type) {
		case AddrV:
			f.env[x] = AddrV{Cell: base.Cell, Path: append(append([]int(nil), base.Path...), x.Field)}
		case PtrV:
			base = e.materialise(st, base, cur, x.Pos())
			f.env[x] = AddrV{Cell: base.Cell, Path: []int{x.Field}}
		case ElemAddrV:
			f.env[x] = ElemAddrV{Arr: base.Arr, Idx: base.Idx, Path: append(append([]int(nil), base.Path...), x.Field)}
		default:
			f.env[x] = e.opaque("faddr")
		}
	case *ssa.Field:
		if sv, ok := e.get(f, st, x.X).(StructV); ok {
			f.env[x] = e.field(sv, x.Field)
		} else {
			f.env[x] = e.symbolic(st, x.Type(), "field")
		}
	case *ssa.IndexAddr:
		switch base := e.get(f, st, x.X).(type) {
		case SliceV:
			idx := termOf(e.get(f, st, x.Index))
			e.boundsCheck(cur, idx, base.Len, x.Pos())
			f.env[x] = ElemAddrV{Arr: base.Arr, Idx: e.addIdx(base.Off, idx)}
		case ArrPtrV:
			idx := termOf(e.get(f, st, x.Index))
			e.boundsCheck(cur, idx, e.lit(base.N), x.Pos())
			f.env[x] = ElemAddrV{Arr: base.Arr, Idx: idx}
		default:
			f.env[x] = e.opaque("iaddr")
		}
	case *ssa.Index:
		if sv, ok := e.get(f, st, x.X).(StrV); ok {
			idx := termOf(e.get(f, st, x.Index))
			e.boundsCheck(cur, idx, "(str.len "+sv.T+")", x.Pos())
			f.env[x] = IntV{"(str.to_code (str.at " + sv.T + " " + idx + "))"}
		} else {
			f.env[x] = e.symbolic(st, x.Type(), "index")
		}
	case *ssa.Lookup:
		switch base := e.get(f, st, x.X).(type) {
		case StrV:
			idx := termOf(e.get(f, st, x.Index))
			e.boundsCheck(cur, idx, "(str.len "+base.T+")", x.Pos())
			f.env[x] = IntV{"(str.to_code (str.at " + base.T + " " + idx + "))"}
		default:
			if v, ok := e.mapLookup(f, st, x, base); ok {
				f.env[x] = v
			} else if x.CommaOk {
				f.env[x] = TupleV{e.symbolic(st, x.Type().(*types.Tuple).At(0).Type(), "mapval"), BoolV{e.fresh("mapok", "Bool")}}
			} else {
				f.env[x] = e.symbolic(st, x.Type(), "mapval")
			}
		}
	case *ssa.Slice:
		e.sliceOp(f, st, x, cur)
	case *ssa.MakeSlice:
		arr := e.newArr(st, x.Type().Underlying().(*types.Slice).Elem(), false, "mk")
		f.env[x] = SliceV{Arr: arr, Off: e.lit(0), Len: termOf(e.get(f, st, x.Len)), Nil: "false"}
		if e.arrCap == nil {
			e.arrCap = map[*Arr]string{}
		}
		e.arrCap[arr] = termOf(e.get(f, st, x.Cap))
	case *ssa.MakeClosure:
		fv := FuncV{Fn: x.Fn.(*ssa.Function)}
		for _, bnd := range x.Bindings {
			fv.Bind = append(fv.Bind, e.get(f, st, bnd))
		}
		f.env[x] = fv
	case *ssa.MakeMap:
		n := e.fresh("map", "U")
		e.fact(not(eq(n, "nilU")))
		f.env[x] = OpaqueV{n}
	case *ssa.MakeChan:
		n := e.fresh("chan", "U")
		e.fact(not(eq(n, "nilU")))
		f.env[x] = OpaqueV{n}
	case *ssa.Phi:
		// value depends on the incoming edge
		var acc Val
		for i := len(ins) - 1; i >= 0; i-- {
			var v Val
			for k, p := range b.Preds {
				if p == ins[i].from {
					v = e.get(f, st, x.Edges[k])
				}
			}
			if v == nil {
				continue
			}
			if acc == nil {
				acc = v
			} else {
				acc = e.mergeVal(ins[i].g, v, acc, st, st, "phi")
			}
		}
		f.env[x] = acc
	case *ssa.Extract:
		tv, ok := e.get(f, st, x.Tuple).(TupleV)
		if !ok || x.Index >= len(tv) {
			f.env[x] = e.symbolic(st, x.Type(), "extract")
		} else {
			f.env[x] = tv[x.Index]
		}
	case *ssa.ChangeType:
		f.env[x] = e.retype(st, e.get(f, st, x.X), x.Type())
	case *ssa.Convert:
		f.env[x] = e.convert(st, e.get(f, st, x.X), x.X.Type(), x.Type(), cur, x.Pos())
	case *ssa.MultiConvert:
		f.env[x] = e.symbolic(st, x.Type(), "mconv")
	case *ssa.ChangeInterface:
		f.env[x] = e.get(f, st, x.X)
	case *ssa.SliceToArrayPointer:
		f.env[x] = e.opaque("s2a")
	case *ssa.MakeInterface:
		v := e.get(f, st, x.X)
		if isError(x.Type()) || types.Implements(x.X.Type(), errorIface) && isErrorLike(x.Type()) {
			if ev, ok := v.(ErrV); ok {
				f.env[x] = ev
			} else {
				n := e.fresh("err", "Int")
				e.fact("(>= " + n + " 1000)")
				f.env[x] = ErrV{n}
				e.boxed[n] = v
			}
		} else if ov, ok := v.(OpaqueV); ok {
			f.env[x] = ov
		} else {
			n := e.fresh("iface", "U")
			e.fact(not(eq(n, "nilU")))
			e.boxed[n] = v
			f.env[x] = OpaqueV{n}
		}
	case *ssa.TypeAssert:
		v := e.get(f, st, x.X)
		var res Val
		if isError(x.AssertedType) {
			if ov, ok := v.(OpaqueV); ok {
				if bx, ok := e.boxed[ov.T].(ErrV); ok {
					res = bx
				}
			}
		}
		if res == nil {
			if ev, ok := v.(ErrV); ok {
				if bx, ok := e.boxed[ev.T]; ok && types.Identical(x.AssertedType, typeOfBoxed(bx, x.AssertedType)) {
					res = bx
				}
			}
		}
		if res == nil {
			if ov, ok := v.(OpaqueV); ok {
				if bx, ok := e.boxed[ov.T]; ok {
					res = bx
				} else if _, isIface := x.AssertedType.Underlying().(*types.Interface); isIface {
					res = ov
				}
			}
		}
		okT := ""
		if res == nil {
			// asserting one and the same interface value to one and the same type gives one and the same answer
			if ov, isO := v.(OpaqueV); isO {
				key := ov.T + "/" + x.AssertedType.String()
				if e.tasserts == nil {
					e.tasserts = map[string]TupleV{}
				}
				if c, seen := e.tasserts[key]; seen {
					res, okT = c[0], c[1].(BoolV).T
				} else {
					res = e.symbolic(st, x.AssertedType, "tassert")
					okT = e.fresh("taok", "Bool")
					_, isIface := x.AssertedType.Underlying().(*types.Interface)
					concrete := "true"
					if isIface {
						concrete = "false"
					}
					e.tasserts[key] = TupleV{res, BoolV{okT}, BoolV{concrete}}
					// a value has one dynamic type: assertions to two different concrete types cannot both succeed
					if !isIface {
						pre := ov.T + "/"
						for k2, c2 := range e.tasserts {
							if k2 != key && strings.HasPrefix(k2, pre) && c2[2].(BoolV).T == "true" {
								e.fact(not(and(c2[1].(BoolV).T, okT)))
							}
						}
					}
				}
			} else {
				res = e.symbolic(st, x.AssertedType, "tassert")
			}
		}
		if okT == "" {
			okT = e.fresh("taok", "Bool")
		}
		if x.CommaOk {
			f.env[x] = TupleV{res, BoolV{okT}}
		} else {
			f.env[x] = res
		}
	case *ssa.Range:
		f.env[x] = e.opaque("rangeiter")
	case *ssa.Next:
		tt := x.Type().(*types.Tuple)
		tv := TupleV{BoolV{e.fresh("nextok", "Bool")}}
		for i := 1; i < tt.Len(); i++ {
			tv = append(tv, e.symbolic(st, tt.At(i).Type(), "next"))
		}
		f.env[x] = tv
	case *ssa.Go:
		// the spawned body is not executed; what it can reach becomes unknown from here on
		e.note("goroutine body not executed: " + e.fset.Position(x.Pos()).String())
		if mc, ok := x.Call.Value.(*ssa.MakeClosure); ok {
			for _, bnd := range mc.Bindings {
				switch bv := e.get(f, st, bnd).(type) {
				case AddrV:
					e.volatile[bv.Cell] = true
				case OptV:
					if bv.Cell != nil {
						e.volatile[bv.Cell] = true
					}
				case PtrV:
					if bv.Cell != nil {
						e.volatile[bv.Cell] = true
					}
				}
			}
		}
		for _, a := range x.Call.Args {
			e.havocPointee(st, e.get(f, st, a), "go")
		}
	case *ssa.Send, *ssa.MapUpdate, *ssa.DebugRef:
	case *ssa.Select:
		f.env[x] = e.symbolic(st, x.Type(), "select")
	default:
		if v, ok := instr.(ssa.Value); ok {
			f.env[v] = e.symbolic(st, v.Type(), "hv")
		}
	}
}

var errorIface = types.Universe.Lookup("error").Type().Underlying().(*types.Interface)

func isErrorLike(t types.Type) bool { return isError(t) }

func typeOfBoxed(v Val, want types.Type) types.Type {
	switch x := v.(type) {
	case PtrV:
		return types.NewPointer(x.Elem)
	}
	return nil
}

func (e *Engine) addIdx(off, idx string) string {
	if off == e.lit(0) {
		return idx
	}
	if e.bv() {
		return "(bvadd " + off + " " + idx + ")"
	}
	return "(+ " + off + " " + idx + ")"
}

func (e *Engine) boundsCheck(cur, idx, ln string, pos token.Pos) {
	if !e.cfg.NoPanic {
		return
	}
	if e.bv() {
		e.oblige("bounds", "", cur, "(bvult "+idx+" "+ln+")", pos)
		return
	}
	e.oblige("bounds", "", cur, and("(<= 0 "+idx+")", "(< "+idx+" "+ln+")"), pos)
}

func (e *Engine) sliceOp(f *frame, st *State, x *ssa.Slice, cur string) {
	base := e.get(f, st, x.X)
	bound := func(v ssa.Value, def string) string {
		if v == nil {
			return def
		}
		return termOf(e.get(f, st, v))
	}
	le := func(a, b string) string {
		if e.bv() {
			return "(bvule " + a + " " + b + ")"
		}
		return "(<= " + a + " " + b + ")"
	}
	sub := func(a, b string) string {
		if b == e.lit(0) {
			return a
		}
		if e.bv() {
			return "(bvsub " + a + " " + b + ")"
		}
		return "(- " + a + " " + b + ")"
	}
	switch sv := base.(type) {
	case StrV:
		lo, hi := bound(x.Low, "0"), bound(x.High, "(str.len "+sv.T+")")
		if e.cfg.NoPanic {
			e.oblige("bounds", "", cur, and("(<= 0 "+lo+")", "(<= "+lo+" "+hi+")", "(<= "+hi+" (str.len "+sv.T+"))"), x.Pos())
		}
		f.env[x] = StrV{"(str.substr " + sv.T + " " + lo + " (- " + hi + " " + lo + "))"}
	case SliceV:
		lo, hi := bound(x.Low, e.lit(0)), bound(x.High, sv.Len)
		if e.cfg.NoPanic {
			// Go allows re-slicing up to the capacity
			e.oblige("bounds", "", cur, and(le(e.lit(0), lo), le(lo, hi), le(hi, e.capTerm(sv))), x.Pos())
		}
		f.env[x] = SliceV{Arr: sv.Arr, Off: e.addIdx(sv.Off, lo), Len: sub(hi, lo), Nil: sv.Nil}
	case ArrPtrV:
		lo, hi := bound(x.Low, e.lit(0)), bound(x.High, e.lit(sv.N))
		if e.cfg.NoPanic {
			e.oblige("bounds", "", cur, and(le(e.lit(0), lo), le(lo, hi), le(hi, e.lit(sv.N))), x.Pos())
		}
		f.env[x] = SliceV{Arr: sv.Arr, Off: lo, Len: sub(hi, lo), Nil: "false"}
	default:
		f.env[x] = e.symbolic(st, x.Type(), "slice")
	}
}

// retype adapts a struct value to a type with identical underlying structure (named type conversions).
func (e *Engine) retype(st *State, v Val, t types.Type) Val {
	if sv, ok := v.(StructV); ok {
		if ts, ok := t.Underlying().(*types.Struct); ok && ts != sv.Typ && ts.NumFields() == len(sv.F) {
			nf := make([]Val, len(sv.F))
			for i := range sv.F {
				nf[i] = e.field(sv, i)
			}
			return StructV{Typ: ts, F: nf}
		}
	}
	return v
}

func (e *Engine) convert(st *State, v Val, from, to types.Type, cur string, pos token.Pos) Val {
	switch x := v.(type) {
	case IntV:
		switch {
		case isInteger(to):
			if e.bv() {
				wf, wt := intWidth(from), intWidth(to)
				switch {
				case wt == wf:
					return x
				case wt < wf:
					return IntV{fmt.Sprintf("((_ extract %d 0) %s)", wt-1, x.T)}
				case isUnsigned(from):
					return IntV{fmt.Sprintf("((_ zero_extend %d) %s)", wt-wf, x.T)}
				default:
					return IntV{fmt.Sprintf("((_ sign_extend %d) %s)", wt-wf, x.T)}
				}
			}
			if fitsIn(from, to) {
				return x
			}
			if e.cfg.Arith == "int" && e.pure == 0 {
				e.oblige("overflow", "", cur, intRange(to, x.T), pos)
				return x
			}
			// wrap-around is not modelled: the converted value is only known when it fits
			return IntV{ite(intRange(to, x.T), x.T, e.freshInt(to, "conv"))}
		case isFloat(to):
			if !e.bv() {
				return RealV{"(to_real " + x.T + ")"}
			}
		case isString(to):
			return e.symbolic(st, to, "runestr")
		}
	case RealV:
		if isFloat(to) {
			return x
		}
		if isInteger(to) && !e.bv() {
			t := ite("(>= "+x.T+" 0.0)", "(to_int "+x.T+")", "(- (to_int (- "+x.T+")))")
			return IntV{ite(intRange(to, t), t, e.freshInt(to, "conv"))}
		}
	case StrV:
		if isString(to) {
			return x
		}
		if sl, ok := to.Underlying().(*types.Slice); ok && isInteger(sl.Elem()) && intWidth(sl.Elem()) == 8 && !e.bv() {
			// []byte(s): an array whose elements are the character codes of s
			arr := e.newArr(st, sl.Elem(), true, "bytes")
			delete(e.inputArrs, arr)
			if lit, isLit := smtStringLiteral(x.T); isLit && len(lit) <= 64 {
				// a short literal: ground facts (a quantifier over str.at makes unrelated obligations undecidable in practice)
				for i := 0; i < len(lit); i++ {
					e.fact(fmt.Sprintf("(= (select %s %d) %d)", st.arrs[arr][".v"], i, lit[i]))
				}
				return SliceV{Arr: arr, Off: "0", Len: fmt.Sprint(len(lit)), Nil: "false"}
			}
			// any other string: the bytes are a deterministic function of the string (no quantifier over str.at: it makes
			// unrelated obligations of the same function undecidable in practice); the link between a byte and the
			// character at its index is not modelled
			e.declUF("uf_bytes", "(String) (Array Int Int)")
			st.arrs[arr][".v"] = "(uf_bytes " + x.T + ")"
			return SliceV{Arr: arr, Off: "0", Len: "(str.len " + x.T + ")", Nil: "false"}
		}
	case SliceV:
		if isString(to) {
			return e.symbolic(st, to, "str_of_bytes")
		}
		return x
	}
	if types.Identical(from.Underlying(), to.Underlying()) {
		return e.retype(st, v, to)
	}
	if _, ok := v.(OpaqueV); ok {
		return e.symbolic(st, to, "conv")
	}
	return v
}

func (e *Engine) freshInt(t types.Type, name string) string {
	n := e.fresh(name, e.intSort(t))
	if !e.bv() {
		e.fact(intRange(t, n))
	}
	return n
}

// fitsIn reports whether every value of integer type from is a value of integer type to.
func fitsIn(from, to types.Type) bool {
	wf, wt := intWidth(from), intWidth(to)
	uf, ut := isUnsigned(from), isUnsigned(to)
	switch {
	case uf == ut:
		return wf <= wt
	case uf && !ut:
		return wf < wt
	}
	return false
}

func (e *Engine) globalVal(st *State, g *ssa.Global, t types.Type) Val {
	if isError(t) {
		return ErrV{intLit(int64(e.ctx.errID(g.String())))}
	}
	key := "glob_" + g.String()
	if v, ok := e.named[key]; ok {
		return v
	}
	v := e.symbolic(e.inputState, t, key)
	e.named[key] = v
	return v
}

// wholeValueArrayAlloc: a local of array type (ulid.ULID, part ids, digests) that is only ever read and written as a
// whole is an opaque value in a plain cell, not an indexable SMT array.
func wholeValueArrayAlloc(x *ssa.Alloc) bool {
	refs := x.Referrers()
	if refs == nil {
		return false
	}
	for _, r := range *refs {
		switch u := r.(type) {
		case *ssa.Store:
			if u.Addr != x {
				return false // the address itself escapes
			}
		case *ssa.UnOp:
			if u.Op != token.MUL {
				return false
			}
		case *ssa.DebugRef:
		default:
			return false
		}
	}
	return true
}

// smtStringLiteral recognises a plain ASCII SMT-LIB string literal and returns its characters.
func smtStringLiteral(t string) (string, bool) {
	if len(t) < 2 || t[0] != '"' || t[len(t)-1] != '"' {
		return "", false
	}
	body := t[1 : len(t)-1]
	for i := 0; i < len(body); i++ {
		if body[i] == '"' || body[i] == '\\' || body[i] < 0x20 || body[i] > 0x7e {
			return "", false
		}
	}
	return body, true
}
