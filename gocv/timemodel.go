package main

// Locations of time.Time values. A time is its instant (unix nanoseconds); the location only matters for calendar
// functions (Year, Month, Day, Date, Format). Instants known to carry the UTC location are remembered by term; every
// other value has an unknown fixed offset uf_tzoff(instant) within +-14 h (assumption: no DST transitions inside the
// arithmetic; location is treated as a function of the value).

const dayNs = "86400000000000"

func (e *Engine) markUTC(t string) {
	if e.utcTimes == nil {
		e.utcTimes = map[string]bool{}
	}
	e.utcTimes[t] = true
}

func (e *Engine) keepLoc(from, to string) string {
	if e.utcTimes[from] {
		e.markUTC(to)
	}
	return to
}

// localNanos is the instant shifted into its location: what the calendar functions look at.
func (e *Engine) localNanos(t string) string {
	if e.utcTimes[t] {
		return t
	}
	e.declUF("uf_tzoff", "(Int) Int")
	off := "(uf_tzoff " + t + ")"
	e.fact("(and (<= (- 50400) " + off + ") (<= " + off + " 50400))")
	return "(+ " + t + " (* " + off + " 1000000000))"
}

func (e *Engine) calendarAxiom() {
	if e.ufs["calendar-axiom"] {
		return
	}
	e.ufs["calendar-axiom"] = true
	e.declUF("uf_year", "(Int) Int")
	e.declUF("uf_month", "(Int) Int")
	e.declUF("uf_day", "(Int) Int")
	e.declUF("uf_dateUTC", "(Int Int Int) Int")
	// time.Date(y, m, d, 0, 0, 0, 0, time.UTC) of the calendar day an instant falls on is the start of that UTC day
	e.fact("(forall ((x Int)) (! (= (uf_dateUTC (uf_year x) (uf_month x) (uf_day x)) (- x (mod x " + dayNs + "))) :pattern ((uf_dateUTC (uf_year x) (uf_month x) (uf_day x)))))")
	// instants of one day share their calendar date
	e.fact("(forall ((x Int)) (! (and (= (uf_year x) (uf_year (- x (mod x " + dayNs + ")))) (= (uf_month x) (uf_month (- x (mod x " + dayNs + ")))) (= (uf_day x) (uf_day (- x (mod x " + dayNs + "))))) :pattern ((uf_day x))))")
}
