// gocv: symbolic values, SMT term helpers, type flattening.
package main

import (
	"fmt"
	"go/types"
	"strings"

	"golang.org/x/tools/go/ssa"
)

const repoPrefix = "github.com/jdillenkofer/pithos"

// Val is a symbolic value. Scalars carry an SMT term (a string); aggregates
// are kept structured so that field-wise merging at joins stays cheap.
type Val interface{}

type IntV struct{ T string }    // sort Int (arith int|none) or (_ BitVec w) (arith bv)
type BoolV struct{ T string }   // sort Bool
type StrV struct{ T string }    // sort String
type RealV struct{ T string }   // sort Real (float64 as mathematical real; assumption)
type TimeV struct{ T string }   // time.Time as unix nanoseconds (sort Int); location ignored (assumption: UTC arithmetic)
type ErrV struct{ T string }    // sort Int, 0 == nil, 1..999 package-level sentinel errors, >= 1000 other errors
type OpaqueV struct{ T string } // sort U (uninterpreted identities: interfaces, maps, channels, contexts ...)
type OptV struct {              // *scalar used as an optional value
	Nil  string
	V    Val   // snapshot (used when Cell == nil)
	Cell *Cell // identity of the pointee when known
	Elem types.Type
}
type StructV struct {
	F   []Val // nil entry = lazily symbolic (only when Sym != "")
	Typ *types.Struct
	Sym string
}
type SliceV struct {
	Arr *Arr
	Off string // offset into the backing array ("0" for whole arrays)
	Len string
	Nil string
}
type AddrV struct { // address of a cell or of a field path inside it
	Cell *Cell
	Path []int
	Nil  string // "" = never nil; otherwise the condition under which this pointer is nil (merged with a nil pointer)
}
type ElemAddrV struct {
	Arr  *Arr
	Idx  string
	Path []int
	Nil  string // "" = never nil; otherwise the condition under which this pointer is nil (merged with a nil pointer)
}
type PtrV struct { // pointer to a struct object (input objects are lazily materialised)
	Nil  string
	Cell *Cell
	Elem types.Type
	Name string
	Cands []*Cell // mergedptr only: the objects it may point to
}
type FuncV struct {
	Fn   *ssa.Function
	Bind []Val
	Nil  string // "" = never nil; otherwise the condition under which this function value is nil (var f func(); if c { f = ... })
}
type TupleV []Val

// MapV is a Go map modelled as two SMT arrays (presence, value) over the key sort.
type MapV struct {
	Nil  string
	Has  string // (Array K Bool)
	Val  string // (Array K V) ; "" when the value type is not a scalar
	KS   string // key sort
	VS   string // value sort ("" = opaque values)
	Typ  *types.Map
	Cell *Cell // identity: maps are reference types; contents live in the state under this cell when non-nil
}

// Cell and Arr are identities; their contents live in the State.
type Cell struct {
	Typ  types.Type
	Name string
	id   int
}
type leaf struct{ key, sort string }
type Arr struct {
	Elem   types.Type
	Leaves []leaf
	id     int
	Name   string
	Orig   *Arr // set on the entry-state copy made for old(...): the array it is a snapshot of
}

// ---------- smt helpers ----------

func and(xs ...string) string {
	var ys []string
	seen := map[string]bool{}
	for _, x := range xs {
		if x == "true" || seen[x] {
			continue
		}
		if x == "false" {
			return "false"
		}
		seen[x] = true
		ys = append(ys, x)
	}
	switch len(ys) {
	case 0:
		return "true"
	case 1:
		return ys[0]
	}
	return "(and " + strings.Join(ys, " ") + ")"
}

func or(xs ...string) string {
	var ys []string
	seen := map[string]bool{}
	for _, x := range xs {
		if x == "false" || seen[x] {
			continue
		}
		if x == "true" {
			return "true"
		}
		seen[x] = true
		ys = append(ys, x)
	}
	switch len(ys) {
	case 0:
		return "false"
	case 1:
		return ys[0]
	}
	return "(or " + strings.Join(ys, " ") + ")"
}

func not(x string) string {
	switch x {
	case "true":
		return "false"
	case "false":
		return "true"
	}
	if strings.HasPrefix(x, "(not ") && strings.HasSuffix(x, ")") && balanced(x[5:len(x)-1]) {
		return x[5 : len(x)-1]
	}
	return "(not " + x + ")"
}

// balanced reports whether s is a single s-expression (an atom or one parenthesised list).
func balanced(s string) bool {
	d := 0
	inStr := false
	for i := 0; i < len(s); i++ {
		c := s[i]
		if inStr {
			if c == '"' {
				inStr = false
			}
			continue
		}
		switch c {
		case '"':
			inStr = true
		case '(':
			d++
		case ')':
			d--
			if d < 0 {
				return false
			}
			if d == 0 && i != len(s)-1 {
				return false
			}
		case ' ':
			if d == 0 {
				return false
			}
		}
	}
	return d == 0 && !inStr
}

func imp(a, b string) string {
	if a == "true" {
		return b
	}
	if a == "false" || b == "true" {
		return "true"
	}
	return "(=> " + a + " " + b + ")"
}

func ite(c, a, b string) string {
	if c == "true" {
		return a
	}
	if c == "false" {
		return b
	}
	if a == b {
		return a
	}
	return "(ite " + c + " " + a + " " + b + ")"
}

func intLit(n int64) string {
	if n < 0 {
		if n == -9223372036854775808 {
			return "(- 9223372036854775808)"
		}
		return fmt.Sprintf("(- %d)", -n)
	}
	return fmt.Sprintf("%d", n)
}

func eq(a, b string) string {
	if a == b {
		return "true"
	}
	return "(= " + a + " " + b + ")"
}

func clean(prefix string) string {
	return strings.Map(func(r rune) rune {
		if r >= 'a' && r <= 'z' || r >= 'A' && r <= 'Z' || r >= '0' && r <= '9' || r == '_' || r == '.' || r == '!' {
			return r
		}
		return '_'
	}, prefix)
}

// ---------- types ----------

func isFloat(t types.Type) bool {
	b, ok := t.Underlying().(*types.Basic)
	return ok && b.Info()&types.IsFloat != 0
}

func isInteger(t types.Type) bool {
	b, ok := t.Underlying().(*types.Basic)
	return ok && b.Info()&types.IsInteger != 0
}

func isUnsigned(t types.Type) bool {
	b, ok := t.Underlying().(*types.Basic)
	return ok && b.Info()&types.IsUnsigned != 0
}

func isString(t types.Type) bool {
	b, ok := t.Underlying().(*types.Basic)
	return ok && b.Info()&types.IsString != 0
}

func intWidth(t types.Type) int {
	if b, ok := t.Underlying().(*types.Basic); ok {
		switch b.Kind() {
		case types.Int8, types.Uint8:
			return 8
		case types.Int16, types.Uint16:
			return 16
		case types.Int32, types.Uint32:
			return 32
		}
	}
	return 64
}

func isError(t types.Type) bool { return t.String() == "error" }

// isTime reports whether t is time.Time (modelled as unix nanoseconds, see builtins.go).
func isTime(t types.Type) bool { return t.String() == "time.Time" }

func isDuration(t types.Type) bool { return t.String() == "time.Duration" }

func intRange(t types.Type, term string) string {
	lo, hi := "(- 9223372036854775808)", "9223372036854775807"
	if b, ok := t.Underlying().(*types.Basic); ok {
		switch b.Kind() {
		case types.Int32:
			lo, hi = "(- 2147483648)", "2147483647"
		case types.Int16:
			lo, hi = "(- 32768)", "32767"
		case types.Int8:
			lo, hi = "(- 128)", "127"
		case types.Uint8:
			lo, hi = "0", "255"
		case types.Uint16:
			lo, hi = "0", "65535"
		case types.Uint32:
			lo, hi = "0", "4294967295"
		case types.Uint64, types.Uint, types.Uintptr:
			lo, hi = "0", "18446744073709551615"
		}
	}
	return "(and (<= " + lo + " " + term + ") (<= " + term + " " + hi + "))"
}

func termOf(v Val) string {
	switch x := v.(type) {
	case IntV:
		return x.T
	case BoolV:
		return x.T
	case StrV:
		return x.T
	case ErrV:
		return x.T
	case OpaqueV:
		return x.T
	case RealV:
		return x.T
	case TimeV:
		return x.T
	}
	panic(unsupported{fmt.Sprintf("termOf %T", v)})
}

// unsupported is thrown when a construct is outside the modelled subset; the function becomes undecided.
type unsupported struct{ why string }

func pathKey(path []int) string {
	s := ""
	for _, i := range path {
		s += fmt.Sprintf(".%d", i)
	}
	return s
}

func fieldType(t types.Type, path []int) types.Type {
	for _, i := range path {
		switch u := t.Underlying().(type) {
		case *types.Struct:
			t = u.Field(i).Type()
		case *types.Array:
			t = u.Elem()
		}
	}
	return t
}

func asList(v Val) []Val {
	if t, ok := v.(TupleV); ok {
		return t
	}
	if v == nil {
		return nil
	}
	return []Val{v}
}

func pack(rs []Val) Val {
	switch len(rs) {
	case 0:
		return TupleV(nil)
	case 1:
		return rs[0]
	}
	return TupleV(rs)
}

func smtString(s string) string {
	var sb strings.Builder
	sb.WriteByte('"')
	for i := 0; i < len(s); i++ {
		r := s[i]
		switch {
		case r == '"':
			sb.WriteString("\"\"")
		case r < 32 || r > 126 || r == '\\':
			fmt.Fprintf(&sb, "\\u{%x}", r)
		default:
			sb.WriteByte(r)
		}
	}
	sb.WriteByte('"')
	return sb.String()
}
