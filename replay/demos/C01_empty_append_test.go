// demo dir: internal/storage/metadatapart
// Demonstration for property C01 (defect reported by an independent sub-agent while seeding): after a sequence of
// successful operations GetObject returns the content of the last acknowledged write. Put "abc", append an empty body,
// append "def" - all three acknowledged - and the object must read "abcdef".
package metadatapart

import (
	"bytes"
	"context"
	"testing"

	"github.com/jdillenkofer/pithos/internal/storage"
)

func TestVerifDemoC01EmptyAppendKeepsTheObjectReadable(t *testing.T) {
	st, cleanup := newTestStorage(t)
	defer cleanup()
	ctx := context.Background()
	bucket := storage.MustNewBucketName("bucket")
	key := storage.MustNewObjectKey("log")
	if err := st.CreateBucket(ctx, bucket); err != nil {
		t.Fatal(err)
	}
	if _, err := st.PutObject(ctx, bucket, key, nil, bytes.NewReader([]byte("abc")), nil, nil); err != nil {
		t.Fatal(err)
	}
	if _, err := st.AppendObject(ctx, bucket, key, bytes.NewReader(nil), nil, nil); err != nil {
		t.Fatalf("empty append: %v", err)
	}
	if _, err := st.AppendObject(ctx, bucket, key, bytes.NewReader([]byte("def")), nil, nil); err != nil {
		t.Fatalf("append after the empty append: %v", err)
	}
	got := readObjectContent(t, st, bucket, key, nil)
	if string(got) != "abcdef" {
		t.Fatalf("object reads %q, want %q", got, "abcdef")
	}
}
