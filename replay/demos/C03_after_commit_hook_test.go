package database_test

// Demonstration for the fix "a failing after-commit hook no longer reports the committed transaction as failed"
// (property C03). Copy into internal/storage/database/ and run: go test -run TestVerifC03AfterCommitHook ./internal/storage/database
// On the tree before the fix: WithTx returns the hook's error although the row is committed, and the second hook never runs.

import (
	"context"
	"database/sql"
	"errors"
	"testing"

	"github.com/jdillenkofer/pithos/internal/storage/database"
)

func TestVerifC03AfterCommitHookErrorDoesNotFailCommittedTx(t *testing.T) {
	ctx := context.Background()
	db := openTestDB(t)
	execTx(t, ctx, db, "CREATE TABLE verif_c03 (id INTEGER PRIMARY KEY)")
	secondRan := false
	err := database.WithTx(ctx, db, &sql.TxOptions{ReadOnly: false}, func(ctx context.Context, tx database.Tx) error {
		tx.OnAfterCommit(func(context.Context) error { return errors.New("cleanup failed") })
		tx.OnAfterCommit(func(context.Context) error { secondRan = true; return nil })
		_, err := tx.SqlTx().ExecContext(ctx, "INSERT INTO verif_c03 (id) VALUES (1)")
		return err
	})
	committed := countRows(t, ctx, db, "verif_c03") == 1
	if err != nil && committed {
		t.Fatalf("operation reported error %q but its transaction committed (a failed operation must leave no trace)", err)
	}
	if committed && !secondRan {
		t.Fatalf("an after-commit hook was skipped because an earlier one failed")
	}
}
