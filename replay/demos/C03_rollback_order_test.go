// demo dir: internal/storage/metadatapart
// Demonstration for property C03 (defect reported by an independent sub-agent while seeding): an operation that fails
// leaves no trace. A part that is written and deleted again inside one transaction (what a deduplicated upload does
// with its fresh part) registers two sets of hooks on the transaction. When the transaction then fails at commit time
// the undo hooks must run in reverse order; run in registration order, the undo of the write first finds nothing to
// remove and the undo of the delete then moves the file back: an orphan part file stays in the part directory.
package metadatapart

import (
	"bytes"
	"context"
	"database/sql"
	"errors"
	"os"
	"path/filepath"
	"testing"

	"github.com/jdillenkofer/pithos/internal/storage/database"
	"github.com/jdillenkofer/pithos/internal/storage/database/sqlite"
	"github.com/jdillenkofer/pithos/internal/storage/metadatapart/partstore"
	filesystemPartStore "github.com/jdillenkofer/pithos/internal/storage/metadatapart/partstore/filesystem"
)

func TestVerifDemoC03UndoHooksRunInReverseOrder(t *testing.T) {
	dir := t.TempDir()
	db, err := sqlite.OpenDatabase(filepath.Join(dir, "pithos.db"))
	if err != nil {
		t.Fatal(err)
	}
	defer db.Close()
	partDir := filepath.Join(dir, "parts")
	store, err := filesystemPartStore.New(partDir)
	if err != nil {
		t.Fatal(err)
	}
	ctx := context.Background()
	if err := store.Start(ctx); err != nil {
		t.Fatal(err)
	}
	id, err := partstore.NewRandomPartId()
	if err != nil {
		t.Fatal(err)
	}
	late := errors.New("late failure at commit time")
	err = database.WithTx(ctx, db, &sql.TxOptions{}, func(ctx context.Context, tx database.Tx) error {
		if err := store.PutPart(ctx, tx, *id, bytes.NewReader([]byte("fresh part"))); err != nil {
			return err
		}
		if err := store.DeletePart(ctx, tx, *id); err != nil { // the deduplicated upload drops its fresh copy again
			return err
		}
		tx.OnPreCommit(func(context.Context) error { return late })
		return nil
	})
	if !errors.Is(err, late) {
		t.Fatalf("the transaction should have failed with the injected error, got %v", err)
	}
	entries, err := os.ReadDir(partDir)
	if err != nil {
		t.Fatal(err)
	}
	for _, e := range entries {
		t.Errorf("the failed transaction left %q in the part directory", e.Name())
	}
}
