// demo dir: cmd
// Demonstration for property C06 (defect reported by a sub-agent from reading the code, reproduced and fixed here): a
// paginated ListObjectsV2 with a delimiter must list every key exactly once, as a key or under its common prefix.
// Before the fix the handler returned as soon as a page was full of keys and dropped the common prefixes the storage had
// delivered with that page; the next page starts behind the last key, so prefixes that sort before it were never
// listed: with keys a/1, a/2, b and max-keys=1 the listing was just [b]. A second defect of the same function, found by
// the bounded scenario verifListingPagesCoverEveryKey: when a storage page held fewer ungrouped keys than max-keys the
// handler fetched again behind the last common prefix and listed the keys sorting after it twice (keys a/1, c/x, d with
// max-keys=2 listed d twice).
package main

import (
	"bytes"
	"context"
	"sort"
	"testing"

	"github.com/aws/aws-sdk-go-v2/aws"
	"github.com/aws/aws-sdk-go-v2/service/s3"
	"github.com/jdillenkofer/pithos/internal/storage/database"
	storageFactory "github.com/jdillenkofer/pithos/internal/storage/factory"
)

func TestVerifDemoC06CommonPrefixNotLostWhenAPageIsFull(t *testing.T) {
	s3Client, _, cleanup := setupTestServer(database.DB_TYPE_SQLITE, true, false, false, storageFactory.EncryptionTypeNone, false, false)
	defer cleanup()
	verifDemoC06Listing(t, s3Client, "listing", []string{"a/1", "a/2", "b", "c/x", "d", "e/1", "f"}, []string{"a/", "b", "c/", "d", "e/", "f"})
	verifDemoC06Listing(t, s3Client, "listing2", []string{"a/1", "c/x", "d"}, []string{"a/", "c/", "d"})
}

func verifDemoC06Listing(t *testing.T, s3Client *s3.Client, name string, keys []string, want []string) {
	ctx := context.Background()
	bucket := aws.String(name)
	if _, err := s3Client.CreateBucket(ctx, &s3.CreateBucketInput{Bucket: bucket}); err != nil {
		t.Fatal(err)
	}
	for _, k := range keys {
		if _, err := s3Client.PutObject(ctx, &s3.PutObjectInput{Bucket: bucket, Key: aws.String(k), Body: bytes.NewReader([]byte("x"))}); err != nil {
			t.Fatal(err)
		}
	}
	for _, maxKeys := range []int32{1, 2, 3, 10} {
		var got []string
		var token *string
		for page := 0; page < 20; page++ {
			out, err := s3Client.ListObjectsV2(ctx, &s3.ListObjectsV2Input{Bucket: bucket, Delimiter: aws.String("/"), MaxKeys: aws.Int32(maxKeys), ContinuationToken: token})
			if err != nil {
				t.Fatal(err)
			}
			for _, o := range out.Contents {
				got = append(got, *o.Key)
			}
			for _, p := range out.CommonPrefixes {
				got = append(got, *p.Prefix)
			}
			if out.IsTruncated == nil || !*out.IsTruncated {
				break
			}
			token = out.NextContinuationToken
		}
		sort.Strings(got)
		if len(got) != len(want) {
			t.Fatalf("max-keys=%d: listed %v, want %v (each key once, as a key or under its common prefix)", maxKeys, got, want)
		}
		for i := range want {
			if got[i] != want[i] {
				t.Fatalf("max-keys=%d: listed %v, want %v", maxKeys, got, want)
			}
		}
	}
}
