package sql

// Demonstration for the fix "a multi-character delimiter that straddled the end of the requested prefix grouped keys
// under a common prefix" (property C06). Copy into internal/storage/metadatapart/metadatastore/sql/ and run:
// go test -run TestVerifC06 ./internal/storage/metadatapart/metadatastore/sql
// Before the fix: prefix "a:", delimiter "::", key "a::b" is grouped under "a::" although "::" does not occur after the
// prefix (the rest of the key is ":b"); found by the bounded search with the contract of determineCommonPrefix as oracle.

import (
	"strings"
	"testing"
)

func TestVerifC06CommonPrefixOnlyFromDelimitersAfterThePrefix(t *testing.T) {
	alpha := []string{"a", "/", ":"}
	var words []string
	var gen func(cur string, n int)
	gen = func(cur string, n int) {
		words = append(words, cur)
		if n == 0 {
			return
		}
		for _, c := range alpha {
			gen(cur+c, n-1)
		}
	}
	gen("", 4)
	for _, prefix := range words {
		for _, key := range words {
			if !strings.HasPrefix(key, prefix) {
				continue
			}
			for _, delim := range []string{"/", "::", ":/", "a"} {
				got := determineCommonPrefix(prefix, key, delim)
				rest := key[len(prefix):]
				i := strings.Index(rest, delim)
				var want *string
				if i >= 0 {
					w := key[:len(prefix)+i+len(delim)]
					want = &w
				}
				if (got == nil) != (want == nil) || (got != nil && *got != *want) {
					t.Fatalf("prefix=%q key=%q delimiter=%q: got %v want %v", prefix, key, delim, got, want)
				}
			}
		}
	}
}
