package metadatapart

// Demonstration for the fix "AppendObject in a versioning-enabled bucket lost metadata, tags and storage class"
// (property C11). Copy into internal/storage/metadatapart/ and run: go test -run TestVerifC11AppendKeepsMetadata ./internal/storage/metadatapart

import (
	"bytes"
	"context"
	"os"
	"path/filepath"
	"testing"

	"github.com/jdillenkofer/pithos/internal/storage"
	repositoryFactory "github.com/jdillenkofer/pithos/internal/storage/database/repository"
	"github.com/jdillenkofer/pithos/internal/storage/database/sqlite"
	sqlMetadataStore "github.com/jdillenkofer/pithos/internal/storage/metadatapart/metadatastore/sql"
	sqlPartStore "github.com/jdillenkofer/pithos/internal/storage/metadatapart/partstore/sql"
)

func verifC11NewStorage(t *testing.T) storage.Storage {
	t.Helper()
	dir := t.TempDir()
	db, err := sqlite.OpenDatabase(filepath.Join(dir, "pithos.db"))
	if err != nil {
		t.Fatalf("open database: %v", err)
	}
	must := func(err error) {
		t.Helper()
		if err != nil {
			t.Fatalf("setup: %v", err)
		}
	}
	partContentRepository, err := repositoryFactory.NewPartContentRepository(db)
	must(err)
	partStore, err := sqlPartStore.New(db, partContentRepository)
	must(err)
	bucketRepository, err := repositoryFactory.NewBucketRepository(db)
	must(err)
	objectRepository, err := repositoryFactory.NewObjectRepository(db)
	must(err)
	partRepository, err := repositoryFactory.NewPartRepository(db)
	must(err)
	tagRepository, err := repositoryFactory.NewTagRepository(db)
	must(err)
	userMetadataRepository, err := repositoryFactory.NewUserMetadataRepository(db)
	must(err)
	metaStore, err := sqlMetadataStore.New(db, bucketRepository, objectRepository, partRepository, tagRepository, userMetadataRepository)
	must(err)
	st, err := NewStorage(db, metaStore, partStore)
	must(err)
	ctx := context.Background()
	must(st.Start(ctx))
	t.Cleanup(func() {
		st.Stop(ctx)
		db.Close()
		os.RemoveAll(dir)
	})
	return st
}


func TestVerifC11AppendKeepsMetadataInVersionedBucket(t *testing.T) {
	st := verifC11NewStorage(t)
	ctx := context.Background()
	bucket := storage.MustNewBucketName("verif-c11")
	key := storage.MustNewObjectKey("k")
	if err := st.CreateBucket(ctx, bucket); err != nil {
		t.Fatal(err)
	}
	enabled := storage.BucketVersioningStatusEnabled
	if err := st.PutBucketVersioningConfiguration(ctx, bucket, &storage.BucketVersioningConfiguration{Status: &enabled}); err != nil {
		t.Fatal(err)
	}
	ct := "text/plain"
	cc := "max-age=60"
	class := "STANDARD_IA"
	opts := &storage.PutObjectOptions{
		Tags:         map[string]string{"team": "blue"},
		Metadata:     &storage.ObjectMetadata{CacheControl: &cc, UserMetadata: map[string]string{"owner": "alice"}},
		StorageClass: &class,
	}
	if _, err := st.PutObject(ctx, bucket, key, &ct, bytes.NewReader([]byte("hello")), nil, opts); err != nil {
		t.Fatal(err)
	}
	if _, err := st.AppendObject(ctx, bucket, key, bytes.NewReader([]byte(" world")), nil, nil); err != nil {
		t.Fatal(err)
	}
	head, err := st.HeadObject(ctx, bucket, key, nil)
	if err != nil {
		t.Fatal(err)
	}
	if head.ContentType == nil || *head.ContentType != ct {
		t.Errorf("content type not preserved by append: %v", head.ContentType)
	}
	if head.Metadata.CacheControl == nil || *head.Metadata.CacheControl != cc {
		t.Errorf("Cache-Control not preserved by append: %v", head.Metadata.CacheControl)
	}
	if head.Metadata.UserMetadata["owner"] != "alice" {
		t.Errorf("user metadata not preserved by append: %v", head.Metadata.UserMetadata)
	}
	if head.StorageClass == nil || *head.StorageClass != class {
		t.Errorf("storage class not preserved by append: %v", head.StorageClass)
	}
	tags, err := st.GetObjectTagging(ctx, bucket, key, nil)
	if err != nil {
		t.Fatal(err)
	}
	if tags["team"] != "blue" {
		t.Errorf("tags not preserved by append: %v", tags)
	}
}
