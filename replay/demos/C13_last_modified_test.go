package metadatapart

// Demonstration for the known finding KF-C13-last-modified-of-existing-versions (property C13): Last-Modified of an
// existing version changes when a later version is written, when it is tagged, and when it is promoted after a delete.
// Copy into internal/storage/metadatapart/ and run: go test -run TestVerifC13 ./internal/storage/metadatapart
// (fails on the pinned tree: recorded, not fixed)
import (
	"bytes"
	"time"
	"context"
	"os"
	"path/filepath"
	"testing"

	"github.com/jdillenkofer/pithos/internal/storage"
	repositoryFactory "github.com/jdillenkofer/pithos/internal/storage/database/repository"
	"github.com/jdillenkofer/pithos/internal/storage/database/sqlite"
	sqlMetadataStore "github.com/jdillenkofer/pithos/internal/storage/metadatapart/metadatastore/sql"
	sqlPartStore "github.com/jdillenkofer/pithos/internal/storage/metadatapart/partstore/sql"
)

func verifC13NewStorage(t *testing.T) storage.Storage {
	t.Helper()
	dir := t.TempDir()
	db, err := sqlite.OpenDatabase(filepath.Join(dir, "pithos.db"))
	if err != nil {
		t.Fatalf("open database: %v", err)
	}
	must := func(err error) {
		t.Helper()
		if err != nil {
			t.Fatalf("setup: %v", err)
		}
	}
	partContentRepository, err := repositoryFactory.NewPartContentRepository(db)
	must(err)
	partStore, err := sqlPartStore.New(db, partContentRepository)
	must(err)
	bucketRepository, err := repositoryFactory.NewBucketRepository(db)
	must(err)
	objectRepository, err := repositoryFactory.NewObjectRepository(db)
	must(err)
	partRepository, err := repositoryFactory.NewPartRepository(db)
	must(err)
	tagRepository, err := repositoryFactory.NewTagRepository(db)
	must(err)
	userMetadataRepository, err := repositoryFactory.NewUserMetadataRepository(db)
	must(err)
	metaStore, err := sqlMetadataStore.New(db, bucketRepository, objectRepository, partRepository, tagRepository, userMetadataRepository)
	must(err)
	st, err := NewStorage(db, metaStore, partStore)
	must(err)
	ctx := context.Background()
	must(st.Start(ctx))
	t.Cleanup(func() {
		st.Stop(ctx)
		db.Close()
		os.RemoveAll(dir)
	})
	return st
}



func TestVerifC13LastModifiedOfExistingVersionIsStable(t *testing.T) {
	st := verifC13NewStorage(t)
	ctx := context.Background()
	bucket := storage.MustNewBucketName("verif-c13")
	key := storage.MustNewObjectKey("k")
	if err := st.CreateBucket(ctx, bucket); err != nil {
		t.Fatal(err)
	}
	enabled := storage.BucketVersioningStatusEnabled
	if err := st.PutBucketVersioningConfiguration(ctx, bucket, &storage.BucketVersioningConfiguration{Status: &enabled}); err != nil {
		t.Fatal(err)
	}
	r1, err := st.PutObject(ctx, bucket, key, nil, bytes.NewReader([]byte("v1")), nil, nil)
	if err != nil {
		t.Fatal(err)
	}
	h1, err := st.HeadObject(ctx, bucket, key, &storage.HeadObjectOptions{VersionID: r1.VersionID})
	if err != nil {
		t.Fatal(err)
	}
	time.Sleep(20 * time.Millisecond)
	if _, err := st.PutObject(ctx, bucket, key, nil, bytes.NewReader([]byte("v2")), nil, nil); err != nil {
		t.Fatal(err)
	}
	h1b, err := st.HeadObject(ctx, bucket, key, &storage.HeadObjectOptions{VersionID: r1.VersionID})
	if err != nil {
		t.Fatal(err)
	}
	if !h1b.LastModified.Equal(h1.LastModified) {
		t.Errorf("Last-Modified of version %s changed from %v to %v when a later version was written", *r1.VersionID, h1.LastModified, h1b.LastModified)
	}
}
