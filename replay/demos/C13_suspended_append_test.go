package metadatapart

// Demonstration for the fix "AppendObject in a versioning-suspended bucket modified the current generated-id version
// in place" (property C13; also C02). Copy into internal/storage/metadatapart/ and run:
// go test -run TestVerifC13Suspended ./internal/storage/metadatapart
import (
	"bytes"
	"io"
	"context"
	"os"
	"path/filepath"
	"testing"

	"github.com/jdillenkofer/pithos/internal/storage"
	repositoryFactory "github.com/jdillenkofer/pithos/internal/storage/database/repository"
	"github.com/jdillenkofer/pithos/internal/storage/database/sqlite"
	sqlMetadataStore "github.com/jdillenkofer/pithos/internal/storage/metadatapart/metadatastore/sql"
	sqlPartStore "github.com/jdillenkofer/pithos/internal/storage/metadatapart/partstore/sql"
)

func verifC13bNewStorage(t *testing.T) storage.Storage {
	t.Helper()
	dir := t.TempDir()
	db, err := sqlite.OpenDatabase(filepath.Join(dir, "pithos.db"))
	if err != nil {
		t.Fatalf("open database: %v", err)
	}
	must := func(err error) {
		t.Helper()
		if err != nil {
			t.Fatalf("setup: %v", err)
		}
	}
	partContentRepository, err := repositoryFactory.NewPartContentRepository(db)
	must(err)
	partStore, err := sqlPartStore.New(db, partContentRepository)
	must(err)
	bucketRepository, err := repositoryFactory.NewBucketRepository(db)
	must(err)
	objectRepository, err := repositoryFactory.NewObjectRepository(db)
	must(err)
	partRepository, err := repositoryFactory.NewPartRepository(db)
	must(err)
	tagRepository, err := repositoryFactory.NewTagRepository(db)
	must(err)
	userMetadataRepository, err := repositoryFactory.NewUserMetadataRepository(db)
	must(err)
	metaStore, err := sqlMetadataStore.New(db, bucketRepository, objectRepository, partRepository, tagRepository, userMetadataRepository)
	must(err)
	st, err := NewStorage(db, metaStore, partStore)
	must(err)
	ctx := context.Background()
	must(st.Start(ctx))
	t.Cleanup(func() {
		st.Stop(ctx)
		db.Close()
		os.RemoveAll(dir)
	})
	return st
}




func TestVerifC13SuspendedAppendDoesNotModifyExistingVersion(t *testing.T) {
	st := verifC13bNewStorage(t)
	ctx := context.Background()
	bucket := storage.MustNewBucketName("verif-c13b")
	key := storage.MustNewObjectKey("k")
	if err := st.CreateBucket(ctx, bucket); err != nil {
		t.Fatal(err)
	}
	enabled := storage.BucketVersioningStatusEnabled
	if err := st.PutBucketVersioningConfiguration(ctx, bucket, &storage.BucketVersioningConfiguration{Status: &enabled}); err != nil {
		t.Fatal(err)
	}
	r1, err := st.PutObject(ctx, bucket, key, nil, bytes.NewReader([]byte("hello")), nil, nil)
	if err != nil {
		t.Fatal(err)
	}
	suspended := storage.BucketVersioningStatusSuspended
	if err := st.PutBucketVersioningConfiguration(ctx, bucket, &storage.BucketVersioningConfiguration{Status: &suspended}); err != nil {
		t.Fatal(err)
	}
	if _, err := st.AppendObject(ctx, bucket, key, bytes.NewReader([]byte(" world")), nil, nil); err != nil {
		t.Fatal(err)
	}
	read := func(version *string) string {
		var opts *storage.GetObjectOptions
		if version != nil {
			opts = &storage.GetObjectOptions{VersionID: version}
		}
		_, readers, err := st.GetObject(ctx, bucket, key, nil, opts)
		if err != nil {
			t.Fatalf("GetObject(%v): %v", version, err)
		}
		var out []byte
		for _, r := range readers {
			b, err := io.ReadAll(r)
			if err != nil {
				t.Fatal(err)
			}
			r.Close()
			out = append(out, b...)
		}
		return string(out)
	}
	if got := read(r1.VersionID); got != "hello" {
		t.Errorf("version %s was returned with content \"hello\" and now reads %q", *r1.VersionID, got)
	}
	if got := read(nil); got != "hello world" {
		t.Errorf("current object reads %q, want \"hello world\"", got)
	}
	null := "null"
	if got := read(&null); got != "hello world" {
		t.Errorf("the suspended append must have written the null version; it reads %q", got)
	}
}
