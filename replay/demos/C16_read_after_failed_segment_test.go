// demo dir: internal/storage/metadatapart/partstore/middlewares/encryption/tink
// Demonstration for property C16 (defect found with a sub-agent's report while seeding, fixed in /repo by a "fix:" commit):
// a Read that fails on a tampered segment must not change what later reads of an intact segment return.
// Before the fix: AES-GCM Open zeroes its destination on an authentication failure; the destination was the buffer
// holding the previously decrypted segment, whose index stayed recorded as "buffered", so the next read of that
// segment returned zero bytes without any error.
package tink

import (
	"bytes"
	"io"
	"testing"
)

func TestVerifDemoC16ReadAfterFailedSegment(t *testing.T) {
	key := bytes.Repeat([]byte{7}, 32)
	aad := []byte("aad")
	plaintext := make([]byte, 3*4096)
	for i := range plaintext {
		plaintext[i] = byte(i*31 + 1)
	}
	ciphertext := encryptWithTink(t, key, aad, plaintext, LegacySegmentSize)
	ciphertext[60] ^= 0x01 // tamper with segment 0 (after the 40-byte tink header)

	r, err := newSeekableDecryptingReader(bytes.NewReader(ciphertext), 0, key, aad, LegacySegmentSize)
	if err != nil {
		t.Fatal(err)
	}
	// 1. read 16 bytes of segment 1 (intact)
	off := int64(LegacySegmentSize) // plaintext offset well inside segment 1
	if _, err := r.Seek(off, io.SeekStart); err != nil {
		t.Fatal(err)
	}
	first := make([]byte, 16)
	if _, err := io.ReadFull(r, first); err != nil {
		t.Fatal(err)
	}
	if !bytes.Equal(first, plaintext[off:off+16]) {
		t.Fatalf("first read of the intact segment is wrong")
	}
	// 2. read the tampered segment 0: must fail
	if _, err := r.Seek(0, io.SeekStart); err != nil {
		t.Fatal(err)
	}
	if _, err := r.Read(make([]byte, 16)); err == nil {
		t.Fatalf("tampered segment was read without error")
	}
	// 3. read the intact segment again: exactly the plaintext, or an error - never other bytes
	if _, err := r.Seek(off, io.SeekStart); err != nil {
		t.Fatal(err)
	}
	again := make([]byte, 16)
	if _, err := io.ReadFull(r, again); err == nil && !bytes.Equal(again, plaintext[off:off+16]) {
		t.Fatalf("read after a failed read returned %x without error, the plaintext is %x", again, plaintext[off:off+16])
	}
}
