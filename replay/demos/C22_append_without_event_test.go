// demo dir: internal/storage/notification
// Demonstration for property C22 (defect found by the method-set template of the C22 contracts after a sub-agent's
// remark, fixed in /repo by a "fix:" commit): the notification middleware did not wrap AppendObject. An append to a
// bucket whose rule matches s3:ObjectCreated:* committed - the object grew - and no outbox entry was written for it,
// while the PutObject that created the object did produce one.
package notification

import (
	"bytes"
	"context"
	"database/sql"
	"testing"
	"time"

	"github.com/jdillenkofer/pithos/internal/storage"
	"github.com/jdillenkofer/pithos/internal/storage/database"
	"github.com/stretchr/testify/require"
)

type verifDemoNopPublisher struct{}

func (verifDemoNopPublisher) Publish(ctx context.Context, entry *OutboxEntry) error { return nil }
func (verifDemoNopPublisher) Validate(ctx context.Context, arn string, destination Destination) error {
	return nil
}

func TestVerifDemoC22AppendProducesNoEvent(t *testing.T) {
	ctx := context.Background()
	db := openTestDB(t)
	inner := newSharedDBMetadataStorage(t, db)
	mw, err := NewStorageMiddleware(inner, db, NewSQLRepository(), verifDemoNopPublisher{}, "default", time.Minute, DispatcherConfig{}, nil)
	require.NoError(t, err)
	count := func() int {
		var n int
		require.NoError(t, database.WithTx(ctx, mw.db, &sql.TxOptions{ReadOnly: true}, func(ctx context.Context, tx database.Tx) error {
			return tx.SqlTx().QueryRowContext(ctx, "SELECT COUNT(*) FROM notification_outbox_entries").Scan(&n)
		}))
		return n
	}
	bucket := storage.MustNewBucketName("bucket")
	require.NoError(t, mw.CreateBucket(ctx, bucket))
	require.NoError(t, mw.PutBucketNotificationConfiguration(ctx, bucket, &storage.BucketNotificationConfiguration{
		QueueConfigurations: []storage.NotificationConfigurationRule{{
			DestinationType: storage.NotificationDestinationQueue,
			DestinationARN:  "arn:aws:sqs:eu-central-1:000000000000:queue",
			Events:          []string{"s3:ObjectCreated:*"},
		}},
	}))
	key := storage.MustNewObjectKey("log")
	_, err = mw.PutObject(ctx, bucket, key, nil, bytes.NewReader([]byte("hello")), nil, nil)
	require.NoError(t, err)
	require.Equal(t, 1, count(), "the PutObject produced its entry")
	_, err = mw.AppendObject(ctx, bucket, key, bytes.NewReader([]byte(" world")), nil, nil)
	require.NoError(t, err)
	obj, err := mw.HeadObject(ctx, bucket, key, nil)
	require.NoError(t, err)
	require.Equal(t, int64(11), obj.Size, "the append committed")
	if count() != 2 {
		t.Fatalf("the committed append produced no outbox entry: %d entries, want 2", count())
	}
}
