package authentication

// Demonstration for the fix "an aws-chunked body that ends before its terminating zero-length chunk was reported as a
// clean end of payload" (property C30). Copy into internal/http/server/authentication/ and run:
// go test -run TestVerifC30 ./internal/http/server/authentication
// Before the fix: the truncated payload is returned with a nil error (io.ReadAll sees io.EOF), so the upload handler
// stores a truncated object without ever checking the final chunk signature or the trailer checksum.

import (
	"context"
	"io"
	"strings"
	"testing"
)

func TestVerifC30TruncatedChunkStreamIsAnError(t *testing.T) {
	cases := map[string]string{
		"ends after a complete data chunk, terminator missing": "5\r\nhello\r\n",
		"ends right after a chunk header":                      "5\r\nhello\r\n5\r\n",
	}
	for name, body := range cases {
		t.Run(name, func(t *testing.T) {
			// unsigned chunks with a checksum trailer: the trailer is the only integrity check, and it is never reached
			r := newAwsChunkReadCloser(context.Background(), io.NopCloser(strings.NewReader(body)), "20260101T000000Z", "scope", "seed", signatureVerifier{}, true, false, true, "x-amz-checksum-crc32")
			data, err := io.ReadAll(r)
			if err == nil {
				t.Fatalf("truncated aws-chunked stream read as a complete payload %q (no final chunk, no trailer checksum was verified)", data)
			}
		})
	}
}

func TestVerifC30CompleteStreamStillReadsToEOF(t *testing.T) {
	r := newAwsChunkReadCloser(context.Background(), io.NopCloser(strings.NewReader("5\r\nhello\r\n0\r\n\r\n")), "20260101T000000Z", "scope", "seed", signatureVerifier{}, false, false, true, "")
	data, err := io.ReadAll(r)
	if err != nil || string(data) != "hello" {
		t.Fatalf("complete stream: got %q, %v", data, err)
	}
	// a reader that reported io.EOF keeps reporting io.EOF
	if n, err := r.Read(make([]byte, 4)); n != 0 || err != io.EOF {
		t.Fatalf("read after EOF: %d, %v", n, err)
	}
}
