// demo dir: internal/settings
// Demonstration for property C32 (defect reported by an independent sub-agent while seeding; fixed in /repo by a
// "fix:" commit): a trusted-proxy CIDR list given on the command line must reach the server. Before the fix the merge of
// command-line and environment settings overwrote every non-pointer field unconditionally, so the environment's absent
// list replaced the command line's; with -trustForwardedHeaders the empty list then meant "trust every peer".
package settings

import "testing"

func TestVerifDemoC32CLIProxyCIDRsSurviveTheMerge(t *testing.T) {
	s, err := LoadSettings([]string{"-trustForwardedHeaders", "-trustedProxyCIDRs", "10.0.0.0/8"})
	if err != nil {
		t.Fatal(err)
	}
	if !s.TrustForwardedHeaders() {
		t.Fatalf("trustForwardedHeaders lost")
	}
	got := s.TrustedProxyCIDRs()
	if len(got) != 1 || got[0] != "10.0.0.0/8" {
		t.Fatalf("trusted proxy CIDRs given on the command line are lost: got %v (an empty list trusts every peer)", got)
	}
}
