// demo dir: internal/storage/metadatapart
// Demonstration for property C34 (defect found by extending the corscache method-set template to DeleteBucket after a
// sub-agent's remark; fixed in /repo by a "fix:" commit): CORS headers are granted only by a matching rule of the
// bucket's configuration. Before the fix the CORS cache was not dropped when the bucket was deleted through the same
// instance: a bucket re-created under the same name - which has no CORS configuration - was served the deleted bucket's
// rules from the cache for up to a minute.
package metadatapart

import (
	"context"
	"testing"

	"github.com/jdillenkofer/pithos/internal/storage"
	"github.com/jdillenkofer/pithos/internal/storage/middlewares/corscache"
)

func TestVerifDemoC34CORSCacheSurvivesBucketDeletion(t *testing.T) {
	inner, cleanup := newTestStorage(t)
	defer cleanup()
	ctx := context.Background()
	st := corscache.NewStorageMiddleware(inner)
	bucket := storage.MustNewBucketName("site")
	if err := st.CreateBucket(ctx, bucket); err != nil {
		t.Fatal(err)
	}
	cfg := &storage.BucketCORSConfiguration{Rules: []storage.CORSRule{{AllowedOrigins: []string{"https://old.example"}, AllowedMethods: []string{"GET"}}}}
	if err := st.PutBucketCORSConfiguration(ctx, bucket, cfg); err != nil {
		t.Fatal(err)
	}
	if _, err := st.GetBucketCORSConfiguration(ctx, bucket); err != nil { // resolves and caches the rules, like any Origin-bearing request
		t.Fatal(err)
	}
	if err := st.DeleteBucket(ctx, bucket); err != nil {
		t.Fatal(err)
	}
	if err := st.CreateBucket(ctx, bucket); err != nil {
		t.Fatal(err)
	}
	got, err := st.GetBucketCORSConfiguration(ctx, bucket)
	if _, innerErr := inner.GetBucketCORSConfiguration(ctx, bucket); innerErr != storage.ErrNoSuchCORSConfiguration {
		t.Fatalf("the re-created bucket should have no CORS configuration in the storage, got %v", innerErr)
	}
	if err != storage.ErrNoSuchCORSConfiguration {
		t.Fatalf("the re-created bucket has no CORS configuration, but the cache answers %+v, %v (rules of the deleted bucket)", got, err)
	}
}
