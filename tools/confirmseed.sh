#!/bin/bash
# usage: confirmseed.sh <prop> <n> [worktree]   confirms a seeded change in a scratch worktree and stores it under /verif/seeded/<prop>-<n>/
export PATH=/opt/veriftools/go1.27.0/bin:$PATH GOFLAGS=-mod=mod GOPROXY=off GOSUMDB=off GOTOOLCHAIN=local
prop=$1; n=$2; wt=${3:-/tmp/wt-$prop}; src=/tmp/seed-$prop/$n
out=/verif/seeded/$prop-$n; log=$(mktemp)
cd $wt || exit 2
git checkout -q -- . ; git clean -fdq
dir=$(head -8 $src/demo_test.go | grep -o 'internal/[A-Za-z0-9_/]*\|cmd[A-Za-z0-9_/]*' | head -1)
[ -z "$dir" ] && { echo "cannot find demo dir"; exit 2; }
git apply $src/patch.diff || { echo "patch does not apply in $wt"; exit 3; }
go build ./... > $log 2>&1 && b=ok || b=FAIL
go test -vet=off -count=1 ./... > $log.suite 2>&1 && s=ok || s=FAIL
cp $src/demo_test.go $dir/zz_seed_demo_test.go
go test -vet=off -count=1 ./$dir > $log.with 2>&1 && w=pass || w=fail
git apply -R $src/patch.diff
go test -vet=off -count=1 ./$dir > $log.without 2>&1 && wo=pass || wo=fail
rm -f $dir/zz_seed_demo_test.go; git checkout -q -- . ; git clean -fdq
echo "$prop-$n build=$b suite=$s demo_with_change=$w demo_without_change=$wo dir=$dir"
if [ $b = ok ] && [ $s = ok ] && [ $w = fail ] && [ $wo = pass ]; then
  mkdir -p $out; cp $src/patch.diff $out/patch.diff; cp $src/demo_test.go $out/demo_test.go; cp $src/notes.md $out/notes.md 2>/dev/null
  echo "$dir" > $out/demo_dir.txt
  echo CONFIRMED
else
  tail -5 $log $log.suite $log.with $log.without
fi
rm -f $log $log.*
