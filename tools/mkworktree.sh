#!/bin/sh
# usage: mkworktree.sh <dir>   creates a scratch worktree of /repo HEAD without the verification files (for independent sub-agents)
set -e
d="$1"
git -C /repo worktree add -q --detach "$d" HEAD
cd "$d"
find . -name 'zz_*_verif.go' -print0 | xargs -0 -r git rm -q -f
git -c user.name=builder -c user.email=b@x commit -qm "scratch base (verification files removed)" || true
git tag -f scratch-base-$(basename "$d") >/dev/null
echo "$d ready at $(git rev-parse --short HEAD)"
