#!/bin/bash
# Rewrites /verif/baseline/<id>.json for every claimed property from the current (unchanged) tree. Developer command:
# run only on a tree on which every check passes; never run by the registered checks.
cd /verif
export PATH=/opt/veriftools/go1.27.0/bin:$PATH GOFLAGS=-mod=mod GOPROXY=off GOSUMDB=off GOTOOLCHAIN=local
[ -n "$(git -C /repo status --porcelain --untracked-files=no)" ] && { echo "REFUSING: /repo has uncommitted changes"; exit 4; }
ids=${*:-$(python3 -c "import json; print(' '.join(c['property_id'] for c in json.load(open('MANIFEST.json'))['checks']))")}
echo $ids | tr ' ' '\n' | xargs -P 4 -I{} sh -c 'gocv/bin/gocv baseline -prop {} 2>&1 | grep -E "^(baseline written|VIOLATION|CHECK BROKEN)" | sed "s/^/{} /"'
