#!/bin/bash
# Runs the quick check of every claimed property (3 at a time) and prints one line per property.
cd /verif
ids=$(python3 -c "import json; print(' '.join(c['property_id'] for c in json.load(open('MANIFEST.json'))['checks']))")
run() { out=$(./check $1 quick 2>&1); code=$?; echo "$1 exit=$code $(echo "$out" | grep '^summary' | cut -c1-150)"; echo "$out" | grep -E "^(VIOLATION|UNDECIDED|VACUOUS|CHECK BROKEN)" | cut -c1-200; }
export -f run
echo $ids | tr ' ' '\n' | xargs -P 3 -I{} bash -c 'run {}'
