#!/usr/bin/env python3
"""Runs every seeded change under /verif/seeded/<prop>-<n>/patch.diff against the quick check of its property and
records the outcome in that directory's meta.json (detection.status / detection.by).

The patch is applied to private copies of the files it touches and handed to gocv as a file overlay; /repo is never
modified. usage: seedstatus.py [name-substring ...]
"""
import json, os, re, shutil, subprocess, sys, tempfile, concurrent.futures
sys.path.insert(0, os.path.dirname(os.path.abspath(__file__)))
from selftest import overlay_for, VERIF, ENV

def claimed():
    return {c["property_id"] for c in json.load(open(os.path.join(VERIF, "MANIFEST.json")))["checks"]}

def run_one(name):
    d = os.path.join(VERIF, "seeded", name)
    prop = name.split("-")[0]
    mp = os.path.join(d, "meta.json")
    meta = json.load(open(mp)) if os.path.exists(mp) else {"property": prop}
    meta.setdefault("produced_by", "independent sub-agent given only the property text and a scratch worktree")
    meta.setdefault("confirmed", "tools/confirmseed.sh: patch applies; build ok; existing suite passes with the change; demo fails with the change and passes without it")
    if prop not in claimed():
        meta["detection"] = {"status": "not-checked", "by": "property " + prop + " is not claimed (see MANIFEST.json not_applicable)"}
        json.dump(meta, open(mp, "w"), indent=1)
        return name, "not-checked", ""
    tmp = tempfile.mkdtemp(prefix="gocv-seed-")
    try:
        patch = os.path.join(d, "patch.rebased.diff")  # rebased onto a later fix commit of the same function
        if not os.path.exists(patch):
            patch = os.path.join(d, "patch.diff")
        ovs, err = overlay_for(patch, tmp)
        if ovs is None:
            return name, "PATCH-DOES-NOT-APPLY", err.strip()[:200]
        cmd = [os.path.join(VERIF, "gocv/bin/gocv"), "check", "-prop", prop, "-noevidence", "-replaydir", os.path.join(tmp, "replays")] + ovs
        r = subprocess.run(cmd, capture_output=True, text=True, env=ENV, cwd=VERIF)
        viol = [l for l in r.stdout.splitlines() if l.startswith("VIOLATION")]
        und = [l for l in r.stdout.splitlines() if l.startswith("UNDECIDED") or l.startswith("CHECK BROKEN")]
        if r.returncode == 1 and viol:
            obl = re.search(r'obligation="([^"]+)"', viol[0])
            by = (obl.group(1) if obl else viol[0]) + (" (no-failing-input-found)" if "no-failing-input-found" in viol[0] else " (replay-confirmed)")
            meta["detection"] = {"status": "caught", "by": by}
        else:
            meta["detection"] = {"status": "missed", "by": "check exits %d; %s" % (r.returncode, (und[0][:300] if und else "every obligation still discharges: the changed behaviour is outside the contracts"))}
        json.dump(meta, open(mp, "w"), indent=1)
        return name, meta["detection"]["status"], meta["detection"]["by"][:160]
    finally:
        shutil.rmtree(tmp, ignore_errors=True)

def main():
    subprocess.run(["go", "build", "-o", "bin/gocv", "."], cwd=os.path.join(VERIF, "gocv"), env=ENV, check=True)
    names = [n for n in sorted(os.listdir(os.path.join(VERIF, "seeded"))) if os.path.exists(os.path.join(VERIF, "seeded", n, "patch.diff"))]
    if sys.argv[1:]:
        names = [n for n in names if any(a in n for a in sys.argv[1:])]
    with concurrent.futures.ThreadPoolExecutor(max_workers=4) as ex:
        for name, status, by in ex.map(run_one, names):
            print("%-8s %-22s %s" % (name, status, by))

if __name__ == "__main__":
    main()
