#!/usr/bin/env python3
"""Must-fail / must-pass corpus for gocv.

selftest/mutants/<name>/   patch.diff + meta.json {"property": "C05", "expect": "<substring of the obligation name>"}
selftest/refactors/<name>/ patch.diff + meta.json {"property": "C05"}   (behaviour preserving: exit 0, no VIOLATION)

Each patch is applied to private copies of the files it touches (under a temp dir) and fed to gocv as a file overlay;
/repo itself is never modified.
usage: selftest.py [name-substring ...]
"""
import json, os, re, shutil, subprocess, sys, tempfile, concurrent.futures

VERIF = os.path.dirname(os.path.dirname(os.path.abspath(__file__)))
REPO = "/repo"
ENV = dict(os.environ, PATH="/opt/veriftools/go1.27.0/bin:" + os.environ["PATH"], GOFLAGS="-mod=mod", GOPROXY="off", GOSUMDB="off", GOTOOLCHAIN="local")

def overlay_for(patch, tmp):
    files = re.findall(r"^\+\+\+ b/(\S+)", open(patch).read(), re.M)
    ovs = []
    work = os.path.join(tmp, "w")
    for f in files:
        dst = os.path.join(work, f)
        os.makedirs(os.path.dirname(dst), exist_ok=True)
        shutil.copy(os.path.join(REPO, f), dst)
    r = subprocess.run(["patch", "-p1", "-s", "-d", work, "-i", os.path.abspath(patch)], capture_output=True, text=True)
    if r.returncode != 0:
        return None, r.stdout + r.stderr
    for f in files:
        ovs += ["-overlay", os.path.join(REPO, f) + "=" + os.path.join(work, f)]
    return ovs, ""

def run_one(kind, name):
    d = os.path.join(VERIF, "selftest", kind, name)
    meta = json.load(open(os.path.join(d, "meta.json")))
    tmp = tempfile.mkdtemp(prefix="gocv-selftest-")
    try:
        ovs, err = overlay_for(os.path.join(d, "patch.diff"), tmp)
        if ovs is None:
            return name, False, "patch does not apply: " + err.strip()
        cmd = [os.path.join(VERIF, "gocv/bin/gocv"), "check", "-prop", meta["property"], "-noevidence", "-replaydir", os.path.join(tmp, "replays")] + ovs
        r = subprocess.run(cmd, capture_output=True, text=True, env=ENV, cwd=VERIF)
        viol = [l for l in r.stdout.splitlines() if l.startswith("VIOLATION")]
        if kind == "mutants":
            exp = meta.get("expect", "")
            ok = r.returncode == 1 and any(re.search(exp, l) for l in viol)
            return name, ok, (viol[0] if viol else "exit %d, no VIOLATION line; tail: %s" % (r.returncode, r.stdout.strip().splitlines()[-3:]))
        ok = r.returncode == 0 and not viol
        return name, ok, ("clean" if ok else "exit %d %s" % (r.returncode, viol[:1]))
    finally:
        shutil.rmtree(tmp, ignore_errors=True)

def main():
    subprocess.run(["go", "build", "-o", "bin/gocv", "."], cwd=os.path.join(VERIF, "gocv"), env=ENV, check=True)
    jobs = []
    for kind in ("mutants", "refactors"):
        base = os.path.join(VERIF, "selftest", kind)
        for name in sorted(os.listdir(base)) if os.path.isdir(base) else []:
            if sys.argv[1:] and not any(a in name for a in sys.argv[1:]):
                continue
            if os.path.exists(os.path.join(base, name, "meta.json")):
                jobs.append((kind, name))
    bad = 0
    with concurrent.futures.ThreadPoolExecutor(max_workers=4) as ex:
        for name, ok, msg in ex.map(lambda j: run_one(*j), jobs):
            print(("PASS " if ok else "FAIL ") + name + ": " + msg)
            bad += 0 if ok else 1
    print("selftest: %d cases, %d failed" % (len(jobs), bad))
    sys.exit(1 if bad else 0)

if __name__ == "__main__":
    main()
