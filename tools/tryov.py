#!/usr/bin/env python3
"""usage: tryov.py <prop> <patch.diff> [extra gocv args]   runs the quick check of <prop> with the patch as a file overlay (/repo untouched)."""
import os, sys, shutil, subprocess, tempfile
sys.path.insert(0, os.path.dirname(os.path.abspath(__file__)))
from selftest import overlay_for, VERIF, ENV
prop, patch = sys.argv[1], sys.argv[2]
tmp = tempfile.mkdtemp(prefix="gocv-try-")
try:
    ovs, err = overlay_for(patch, tmp)
    if ovs is None:
        print("PATCH DOES NOT APPLY:", err); sys.exit(3)
    r = subprocess.run([os.path.join(VERIF, "gocv/bin/gocv"), "check", "-prop", prop, "-noevidence", "-replaydir", os.path.join(tmp, "replays")] + ovs + sys.argv[3:], env=ENV, cwd=VERIF, capture_output=True, text=True)
    lines = [l for l in r.stdout.splitlines() if not l.startswith("KNOWN-FINDING")]
    print("\n".join(l[:400] for l in lines[-12:])); print("exit=%d" % r.returncode)
finally:
    shutil.rmtree(tmp, ignore_errors=True)
