#!/bin/sh
# usage: tryseed.sh <prop> <patch.diff>   applies the patch to /repo, runs the quick check, reverts
prop=$1; patch=$2
cd /repo || exit 2
[ -n "$(git status --porcelain)" ] && { echo "REFUSING: /repo has uncommitted changes (commit them first)"; exit 4; }
git apply --check "$patch" 2>/dev/null || { echo "PATCH DOES NOT APPLY: $patch"; git reset -q --hard HEAD; exit 3; }
git apply "$patch"
cd /verif && ./check "$prop" quick 2>&1 | grep -v "^KNOWN-FINDING" | tail -6
echo "exit=$?"
git -C /repo checkout -- .
git -C /repo status --short | head -3
