#!/usr/bin/env python3
"""Validates every /verif/evidence/<id>.json against /root/.vp/EVIDENCE.schema.json and against the level claimed in
MANIFEST.json; also flags bounded stand-in searches that did not run to a verdict. Exit 1 on any problem.
Run it after a full pass and before committing evidence (python3-vt has jsonschema)."""
import json, os, sys
try:
    import jsonschema
except ImportError:
    os.execvp("python3-vt", ["python3-vt"] + sys.argv)
V = os.path.dirname(os.path.dirname(os.path.abspath(__file__)))
schema = json.load(open("/root/.vp/EVIDENCE.schema.json"))
man = json.load(open(os.path.join(V, "MANIFEST.json")))
bad = 0
for c in man["checks"]:
    pid = c["property_id"]
    f = os.path.join(V, "evidence", pid + ".json")
    if not os.path.exists(f):
        print(pid, "MISSING evidence"); bad += 1; continue
    e = json.load(open(f))
    errs = [x.message[:160] for x in jsonschema.Draft202012Validator(schema).iter_errors(e)]
    claimed = c["level_claimed"]["category"]
    if e["level"] != claimed:
        errs.append("level %s differs from claimed %s" % (e["level"], claimed))
    for b in e["coverage"].get("bounded_searches", []):
        if b["result"] == "search-did-not-finish" or b.get("inputs_satisfying_the_precondition", 0) == 0:
            errs.append("bounded search of %s explored nothing (%s)" % (b["function"], b["result"]))
    if errs:
        bad += 1
    print(pid, e["level"], e["tier"], "OK" if not errs else "INVALID: " + "; ".join(errs))
sys.exit(1 if bad else 0)
