#!/bin/sh
# Warms the Go build cache for replay tests (packages that hold contract files), so that a replay costs seconds.
export PATH=/opt/veriftools/go1.27.0/bin:$PATH GOFLAGS=-mod=mod GOPROXY=off GOSUMDB=off GOTOOLCHAIN=local
cd /repo || exit 0
pkgs=$(find internal cmd -name zz_contracts_verif.go 2>/dev/null | xargs -r -n1 dirname | sed 's|^|./|' | sort -u)
[ -z "$pkgs" ] && exit 0
go test -tags verif -vet=off -count=1 -run '^$' $pkgs >/dev/null 2>&1
exit 0
